"""Abstract interpreter over the PLF domain.

Evaluates function bodies on *symbolic* parameters to normal forms.  It is a
dataflow analysis (constant propagation generalised to monomials / opaque
terms): no concrete data, no solver, loops are never unrolled (a loop body is
analysed once with the loop variable symbolic; accumulators become `loopsum`
atoms, anything else loop-carried becomes an unknown atom `?loop`).

Unknown constructs produce atoms whose name starts with '?': drivers treat a
normal form containing such atoms as UNRECOGNISED, never as a violation.
"""
import ast
import math
from fractions import Fraction

from .plf import (Rat, Sym, Fn, PowA, Atom, as_rat, rpow, fn_exp, fn_log10, fn_abs,
                  apply_fn, to_frac, show, vkey)
from .report import AnalysisError
from .index import FunctionInfo, ClassInfo, Binding, norm_text

MAX_PATHS = 64


class FuncRef(object):
    def __init__(self, finfo):
        self.finfo = finfo

    def __repr__(self):
        return "<fn %s>" % self.finfo.fq


class LamRef(object):
    """a lambda expression with plain positional parameters, closed over the environment it was written in"""
    def __init__(self, node, env):
        self.node = node
        self.env = env

    def __repr__(self):
        return "<lambda %s>" % norm_text(self.node)[:60]


class GenVal(object):
    """a generator expression over a range, with the number of items already taken from it (next() consumes one; a loop,
    enumerate(), list() ... take the rest).  Only straight-line use is modelled: the object is shared by forked states."""
    def __init__(self, comp):
        self.comp = comp            # the listcomp normal form [g(c) for c in range(lo, hi, st)]
        self.taken = 0
        self.done = False

    def _parts(self):
        la = self.comp.single_atom()
        return la.args[0], la.args[1], la.args[2]

    def next_item(self):
        body, tag, (lo, hi, st) = self._parts()
        at = lo + Rat.const(self.taken) * st
        self.taken += 1
        return body.subst(lambda a: at if a == Sym(tag, ("int", "loopvar")) else None)

    def remaining(self):
        body, tag, (lo, hi, st) = self._parts()
        self.done = True
        return Rat.atom(Fn("listcomp", (body, tag, (lo + Rat.const(self.taken) * st, hi, st))))

    def __repr__(self):
        return "<generator %s, %d taken>" % (show(self.comp)[:60], self.taken)


class ExtRef(object):
    def __init__(self, dotted):
        self.dotted = dotted

    def __repr__(self):
        return "<ext %s>" % self.dotted


class ModRef(object):
    def __init__(self, name):
        self.name = name


class ClsRef(object):
    def __init__(self, cinfo):
        self.cinfo = cinfo


class SeqList(list):
    """A Python list built inside loops: the items are symbolic (one per append site, in terms of the loop variables) and
    `prov[k]` is the loop nest ((tag, range key), ...) that produced item k ('()' for an item appended outside any loop).
    A list whose single item has provenance G stands for the sequence [item(v) for v in G] in iteration order."""
    def __init__(self, items=(), prov=None):
        list.__init__(self, items)
        self.prov = list(prov) if prov is not None else [()] * len(self)

    def copy_seq(self):
        return SeqList(list(self), list(self.prov))

    def seq(self):
        """(item, gens) if the list is one comprehension-like sequence, else None"""
        if len(self) == 1 and len(self.prov) == 1 and self.prov[0]:
            return self[0], tuple(self.prov[0])
        return None


def copy_list(v):
    return v.copy_seq() if isinstance(v, SeqList) else list(v)


class IterVal(object):
    """iter(seq): remembers the sequence and the loop depth at which it was created"""
    def __init__(self, seq, depth):
        self.seq = seq
        self.depth = depth


class Obj(object):
    """Symbolic instance of a repo class."""
    def __init__(self, cls, name="self"):
        self.cls = cls
        self.name = name
        self.attrs = {}
        self.attr_log = []      # (attr, value, fq, lineno)

    def clone(self):
        o = Obj(self.cls, self.name)
        o.attrs = {k: (copy_list(v) if isinstance(v, list) else v) for k, v in self.attrs.items()}
        o.attr_log = list(self.attr_log)
        return o

    def adopt(self, other):
        self.attrs = other.attrs
        self.attr_log = other.attr_log

    def __repr__(self):
        return "<obj %s>" % self.cls.name


class ShapeOf(object):
    def __init__(self, v):
        self.v = v


class ShapeTail(object):
    """x.shape[k:] for a constant k > 0, not yet unpacked: the number of extents is not known until it is"""
    def __init__(self, v, skip):
        self.v = v
        self.skip = skip


class BoundMethod(object):
    def __init__(self, recv, name):
        self.recv = recv
        self.name = name


class RangeVal(object):
    def __init__(self, lo, hi, step):
        self.lo, self.hi, self.step = lo, hi, step

    def key(self):
        return ("range", vkey(self.lo), vkey(self.hi), vkey(self.step))

    def __repr__(self):
        return "range(%s, %s, %s)" % (show(self.lo), show(self.hi), show(self.step))


class _Raise(object):
    def __repr__(self):
        return "<raise>"


RAISE = _Raise()
NORET = object()


ALLOCATORS = ("zeros", "ones", "empty", "full", "zeros_like", "ones_like", "empty_like", "full_like", "array", "copy",
              "arange", "linspace", "identity", "eye")
SCALAR_FLAGS = ("scalar", "int", "size", "loopvar")
SCALAR_FNS = ("shape", "len", "size", "ndim", "num.bit_length", "floordiv", "mod")


def maybe_array(v):
    """False only if the value is certainly a Python/NumPy scalar (immutable: `x += 1` rebinds one name)"""
    if not isinstance(v, Rat):
        return False
    if v.is_const():
        return False
    for a in v.atoms(False):
        if isinstance(a, Sym) and any(f in a.flags for f in SCALAR_FLAGS):
            continue
        if isinstance(a, Fn) and a.name in SCALAR_FNS:
            continue
        if isinstance(a, Fn) and a.name in ("sum", "mean", "max", "min", "std", "var", "prod") and len(a.args) > 1 and a.args[1] is None:
            continue
        return True
    return False


class State(object):
    __slots__ = ("env", "ret", "conds", "flow", "facts", "cond_nf")

    def __init__(self, env, ret=NORET, conds=(), flow=None, facts=None, cond_nf=()):
        self.cond_nf = tuple(cond_nf)   # ((evaluated test, truth), ...) for symbolic branch decisions
        self.env = env
        self.ret = ret
        self.conds = tuple(conds)
        self.flow = flow        # None | 'break' | 'continue'
        self.facts = dict(facts or {})      # key of a decided symbolic condition -> bool

    def fork(self, cond=None):
        env = {}
        for k, v in self.env.items():
            if isinstance(v, Obj):
                v = v.clone()           # per-path object state
            elif isinstance(v, list):
                v = copy_list(v)
            elif k in ("__alias__", "__views__", "__ranks__"):
                v = dict(v)
            env[k] = v
        return State(env, self.ret, self.conds + ((cond,) if cond else ()), self.flow, self.facts,
                     self.cond_nf)

    @property
    def live(self):
        return self.ret is NORET and self.flow is None


class Ctx(object):
    def __init__(self, finfo, self_obj=None, depth=0):
        self.finfo = finfo
        self.self_obj = self_obj
        self.depth = depth
        self.locals = None
        self.loop_depth = 0
        self.mutated = {}       # param name -> new value (stores through a parameter)


def _same_attrs(a, b):
    if set(a.attrs) != set(b.attrs):
        return False
    return all(vkey(a.attrs[k]) == vkey(b.attrs[k]) for k in a.attrs)


def unk(tag, *args):
    return Rat.atom(Fn("?" + tag, args))


def is_unknown_atom(a):
    return isinstance(a, Fn) and a.name.startswith("?")


def has_unknown(v):
    from .plf import find_atoms
    return bool(find_atoms(v, is_unknown_atom))


def unknown_atoms(v):
    from .plf import find_atoms
    return find_atoms(v, is_unknown_atom)


def pyconst(v):
    """python constant of a value if it is one."""
    if isinstance(v, Rat):
        c = v.const_value()
        if c is None:
            return None
        c = complex(c)
        if c.imag == 0:
            f = to_frac(c.real)
            if f is not None and f.denominator == 1:
                return int(f)
            return c.real
        return c
    return v


def _range_of_listcomp(it, tag):
    """(range, item) when `it` is a comprehension over a range: its k-th item is the element expression at the k-th value of
    the range, so a loop over it is a loop over that range (loop variable `tag`); enumerate() of it adds the position"""
    start = None
    if isinstance(it, tuple) and len(it) in (2, 3) and it[0] == "enumerate" and isinstance(it[1], Rat):
        start = it[2] if len(it) == 3 else Rat.const(0)
        it = it[1]
    la = it.single_atom() if isinstance(it, Rat) else None
    if isinstance(la, Fn) and la.name == "listcomp" and isinstance(la.args[0], Rat) and isinstance(la.args[2], tuple) and len(la.args[2]) == 3 \
            and all(isinstance(x, Rat) for x in la.args[2]):
        var = Sym(la.args[1], ("int", "loopvar"))
        new = Rat.sym(tag, ("int", "loopvar"))
        item = la.args[0].subst(lambda a: new if a == var else None)
        lo, hi, st = la.args[2]
        if start is not None:
            if not isinstance(start, Rat):
                return None
            return RangeVal(lo, hi, st), ((new - lo) / st + start, item)
        return RangeVal(lo, hi, st), item
    return None


def _subst_val(v, f):
    if isinstance(v, Rat):
        return v.subst(f)
    if isinstance(v, (tuple, list)):
        return type(v)(_subst_val(x, f) for x in v)
    if isinstance(v, dict):
        return {k: _subst_val(x, f) for k, x in v.items()}
    return v


def _known_real(v):
    """the value is a real array whatever its operand was: a real or imaginary part, a modulus or a phase"""
    a = v.single_atom() if isinstance(v, Rat) else None
    return isinstance(a, Fn) and a.name in ("real", "imag", "abs", "angle")


class Interp(object):
    # values known to be two-dimensional arrays (so that x.T[k] == x[:, k]); each entry is established by a rule:
    #   self.stencil_coords = array(where(stencil == 1)).T with a 2-D stencil is (n, 2)      (C04 K8.stencil-coordinates)
    rank2 = frozenset({"self.stencil_coords"})

    def __init__(self, index, opaque=(), inline_depth=6, int_transparent=False,
                 square=False, round_transparent=False):
        self.ix = index
        self.opaque = set(opaque)       # fq names of repo functions not to inline
        self.inline_depth = inline_depth
        self.int_transparent = int_transparent
        self.round_transparent = round_transparent
        self.square = square            # shape[k] of any array is one symbol per array
        self.assign_log = []            # (fq, target text, lineno, value, conds)
        self.store_log = []             # (fq, base text, idx, value, lineno, op)
        self.call_log = []              # (fq, callee text, args, kwargs, lineno)
        self.loop_log = []              # (fq, lineno, var vals, iter val, env at end of body)
        self.notes = []
        self.functions_seen = set()
        self.param_flags = {}           # name -> flags for fresh symbols
        self.alloc_log = []
        self.paths_conds = {}           # key of a paths(...) atom -> per alternative, the evaluated conditions of its callee paths
        self.while_log = []             # (fq, lineno, log marks before, after) of the symbolic pass over a while body
        self.alias_log = []             # (fq, lineno, updated name, aliased name, stmt text, 'loop'|'line')
        self.rng_instances = 0
        self.draw_counts = {}
        self.drop_eps = True            # additive literals <= 1e-9 are epsilon guards: recorded and dropped
        self.eps_guards = []

    # ------------------------------------------------------------------ API
    def sym(self, name, flags=()):
        return Rat.sym(name, flags)

    def run(self, finfo, args=None, kwargs=None, self_obj=None, depth=0):
        """Returns list of State (one per path that returns or falls off the end)."""
        self.functions_seen.add(finfo.fq)
        ctx = Ctx(finfo, self_obj, depth)
        ctx.locals = self.ix.local_names(finfo)
        if depth:
            # an inlined callee runs inside the loops of its caller: its own loops (and draws) are numbered from there
            ctx.loop_depth = getattr(self, "_inherit_loop_depth", 0)
        env = {}
        params = list(finfo.params)
        args = list(args or [])
        kwargs = dict(kwargs or {})
        if finfo.cls is not None and params and params[0] == "self":
            env["self"] = self_obj
            params = params[1:]
        for i, p in enumerate(params):
            if i < len(args):
                env[p] = args[i]
            elif p in kwargs:
                env[p] = kwargs.pop(p)
            elif p in finfo.defaults:
                env[p] = self.ev(finfo.defaults[p], {}, ctx)
            else:
                env[p] = self.sym(p, self.param_flags.get(p, ()))
        for p in finfo.kwonly:
            if p in kwargs:
                env[p] = kwargs.pop(p)
            elif p in finfo.defaults:
                env[p] = self.ev(finfo.defaults[p], {}, ctx)
        if finfo.vararg:
            env[finfo.vararg] = tuple(args[len(params):])
        if finfo.kwarg:
            env[finfo.kwarg] = dict(kwargs)
        states = self.exec_block(finfo.node.body, [State(env, facts=getattr(self, "_inherit_facts", None))], ctx)
        self._last_ctx = ctx
        states = [s for s in states if s.ret is not RAISE]
        self.last_states = states
        if self_obj is not None and states:
            objs = [s.env.get("self") for s in states]
            objs = [o for o in objs if isinstance(o, Obj)]
            if len(objs) == 1 or (objs and all(_same_attrs(o, objs[0]) for o in objs)):
                if objs[0] is not self_obj:
                    self_obj.adopt(objs[0])
            elif objs:
                # paths disagree on the object state: attributes that differ become a fully understood `paths` value
                merged = {}
                keys = []
                for o in objs:
                    for k in o.attrs:
                        if k not in keys:
                            keys.append(k)
                for k in keys:
                    vals = [o.attrs.get(k, Rat.sym("self." + k, ("attr",))) for o in objs]
                    if all(vkey(v) == vkey(vals[0]) for v in vals):
                        merged[k] = vals[0]
                    elif all(isinstance(v, Rat) for v in vals):
                        uniq = []
                        for v in vals:
                            if not any(vkey(v) == vkey(u) for u in uniq):
                                uniq.append(v)
                        merged[k] = Rat.atom(Fn("paths", tuple(uniq)))
                    else:
                        merged[k] = unk("paths_attr", k)
                self_obj.attrs = merged
        return states

    def symbolic_args(self, finfo, flags=None, fixed=None):
        """one Sym per parameter (ignoring defaults), except those in `fixed`."""
        flags = flags or {}
        fixed = fixed or {}
        out = []
        for p in finfo.params:
            if p == "self" and finfo.cls is not None:
                continue
            if p in fixed:
                out.append(fixed[p])
            else:
                out.append(Rat.sym(p, flags.get(p, ())))
        return out

    def eval_in(self, finfo, src, env):
        """Evaluate oracle source text (expression, or statements followed by a
        final expression) with names resolved as inside `finfo`'s module."""
        tree = ast.parse(src.strip())
        ctx = Ctx(finfo, None, 0)
        ctx.locals = set(env)
        for n in ast.walk(tree):
            if isinstance(n, ast.Name) and isinstance(n.ctx, ast.Store):
                ctx.locals.add(n.id)
        st = State(dict(env))
        body = tree.body
        if not body or not isinstance(body[-1], ast.Expr):
            raise AnalysisError("oracle text must end with an expression")
        states = self.exec_block(body[:-1], [st], ctx)
        if len(states) != 1:
            raise AnalysisError("oracle text must be straight-line")
        return self.ev(body[-1].value, states[0].env, ctx)

    def resolve_paths(self, v, cond_nf):
        """replace `paths(alt1, alt2, ...)` atoms of inlined callees by the one alternative whose own branch conditions do
        not contradict the branch decisions `cond_nf` of the path the value belongs to"""
        if isinstance(v, (tuple, list)):
            return type(v)(self.resolve_paths(x, cond_nf) for x in v)
        if isinstance(v, dict):
            return {k: self.resolve_paths(x, cond_nf) for k, x in v.items()}
        if not isinstance(v, Rat) or not self.paths_conds:
            return v
        decided = {}
        for test, truth in cond_nf:
            decided[vkey(test)] = truth

        def f(a):
            if isinstance(a, Fn) and a.name == "paths" and a.key() in self.paths_conds:
                keep = []
                for alt, conds_list in zip(a.args, self.paths_conds[a.key()]):
                    ok_any = False
                    for cs in conds_list:
                        if all(decided.get(vkey(t_), tr_) == tr_ for t_, tr_ in cs):
                            ok_any = True
                            break
                    if ok_any:
                        keep.append((alt, conds_list))
                if len(keep) == 1:
                    return self.resolve_paths(keep[0][0], cond_nf)
                if 1 < len(keep) < len(a.args):
                    # several alternatives remain possible: the contradicted ones are dropped
                    at = Fn("paths", tuple(k_[0] for k_ in keep))
                    self.paths_conds.setdefault(at.key(), [k_[1] for k_ in keep])
                    return Rat.atom(at)
            return None
        return v.subst(f)

    def paths(self, finfo, args=None, kwargs=None, self_obj=None, split=False):
        """list of (conds text, cond_nf, return value) per returning path.  With `split`, a returned value that is the
        unresolved alternatives of one inlined callee (`return helper(...)`) is reported as one path per alternative, the
        callee's own decisions appended to the caller's.  With split="deep" the same is done for callee alternatives anywhere
        inside the value (the decisions a helper makes become decisions of the caller's paths, as if it were inlined)."""
        out = []
        for s in self.run(finfo, args, kwargs, self_obj):
            v = None if s.ret is NORET else self.resolve_paths(s.ret, s.cond_nf)
            work = [(tuple(s.conds), tuple(s.cond_nf), v)]
            guard = 0
            while work:
                conds, cnf, v = work.pop(0)
                guard += 1
                a = None
                if split == "deep" and guard < 200:
                    a = self._first_paths_atom(v)
                elif split and isinstance(v, Rat):
                    a = v.single_atom()
                if split and isinstance(a, Fn) and a.name == "paths" and a.key() in self.paths_conds:
                    decided = {vkey(t_): tr_ for t_, tr_ in cnf}
                    new = []
                    for alt, conds_list in zip(a.args, self.paths_conds[a.key()]):
                        for cs in conds_list:
                            if not all(decided.get(vkey(t_), tr_) == tr_ for t_, tr_ in cs):
                                continue
                            # decisions already on the path may mention the callee's value too (`if helper(x) < 0:`): under this
                            # alternative they are decisions about that alternative
                            sub_ = lambda x, a=a, alt=alt: alt if x == a else None
                            cnf_here = tuple((_subst_val(t_, sub_) if isinstance(t_, Rat) and t_.has_atom(lambda q, a=a: q == a) else t_, tr_)
                                             for t_, tr_ in cnf)
                            cnf2 = cnf_here + tuple(c_ for c_ in cs if vkey(c_[0]) not in decided)
                            conds2 = conds + tuple("callee: %s%s" % ("" if tr else "not ", str(_vk(t))[:80]) for t, tr in cs
                                                   if vkey(t) not in decided)
                            v2 = _subst_val(v, lambda x, a=a, alt=alt: alt if x == a else None)
                            new.append((conds2, cnf2, self.resolve_paths(v2, cnf2)))
                    work = new + work
                    continue
                out.append((conds, cnf, v))
        return out

    def _first_paths_atom(self, v):
        """an unresolved callee-alternatives atom of v that is not nested inside another one (splitting an inner atom first
        would change the outer atom, whose recorded conditions could then no longer be found): the largest one"""
        found = {}

        def walk(x):
            if isinstance(x, Rat):
                for a in x.atoms(True):
                    if isinstance(a, Fn) and a.name == "paths" and a.key() in self.paths_conds:
                        found[repr(a.key())] = a
            elif isinstance(x, (tuple, list)):
                for y in x:
                    walk(y)
            elif isinstance(x, dict):
                for y in x.values():
                    walk(y)
        walk(v)
        if not found:
            return None
        k = max(found, key=lambda r: (len(r), r))
        return found[k]

    def returns(self, finfo, args=None, kwargs=None, self_obj=None):
        """list of (conds, return value); falls-off-the-end paths give None."""
        out = []
        for s in self.run(finfo, args, kwargs, self_obj):
            out.append((s.conds, None if s.ret is NORET else self.resolve_paths(s.ret, s.cond_nf)))
        return out

    def single(self, finfo, args=None, kwargs=None, self_obj=None):
        r = self.returns(finfo, args, kwargs, self_obj)
        vals = []
        for c, v in r:
            if not any(vkey(v) == vkey(x) for x in vals):
                vals.append(v)
        if len(vals) != 1:
            raise AnalysisError("%s: expected a single return normal form, got %d paths"
                                % (finfo.fq, len(vals)))
        return vals[0]

    # ------------------------------------------------------------ statements
    def exec_block(self, stmts, states, ctx):
        for st in stmts:
            nxt = []
            for s in states:
                if not s.live:
                    nxt.append(s)
                    continue
                nxt.extend(self.exec_stmt(st, s, ctx))
            states = nxt
            if len(states) > MAX_PATHS:
                raise AnalysisError("%s: more than %d paths" % (ctx.finfo.fq, MAX_PATHS))
        return states

    def exec_stmt(self, st, s, ctx):
        ctx.facts_now = s.facts
        ctx.state_now = s
        # `x = a if c else b` / `return a if c else b` are the statement `if c: ... else: ...` (same paths, same facts)
        if isinstance(st, (ast.Assign, ast.AugAssign, ast.AnnAssign, ast.Return)) and isinstance(getattr(st, "value", None), ast.IfExp) \
                and self.truth(st.value.test, s.env, ctx) is None:
            import copy as _copy
            a, b = _copy.copy(st), _copy.copy(st)
            a.value, b.value = st.value.body, st.value.orelse
            node = ast.If(test=st.value.test, body=[a], orelse=[b])
            ast.copy_location(node, st)
            return self.st_If(node, s, ctx)
        # the same for a conditional expression nested inside the value (`x = z / ((1 + m) if m == 1 else (1 - m))`): the
        # statement is executed once per alternative, under the decision, exactly as the if-statement form would be
        if isinstance(st, (ast.Assign, ast.AugAssign, ast.AnnAssign, ast.Return)) and getattr(st, "value", None) is not None \
                and not isinstance(st.value, ast.IfExp):
            inner = _first_nested_ifexp(st.value)
            if inner is not None and self.truth(inner.test, s.env, ctx) is None:
                import copy as _copy

                def with_(repl):
                    c = _copy.copy(st)
                    c.value = _replace_node(st.value, inner, repl)
                    return c
                node = ast.If(test=inner.test, body=[with_(inner.body)], orelse=[with_(inner.orelse)])
                ast.copy_location(node, st)
                ast.fix_missing_locations(node)
                return self.st_If(node, s, ctx)
        m = getattr(self, "st_" + type(st).__name__, None)
        if m is None:
            self.notes.append("%s: statement %s skipped" % (ctx.finfo.fq, type(st).__name__))
            return [s]
        return m(st, s, ctx)

    def st_Pass(self, st, s, ctx):
        return [s]

    st_Global = st_Nonlocal = st_Import = st_ImportFrom = st_Pass

    def st_Delete(self, st, s, ctx):
        return [s]

    def st_Assert(self, st, s, ctx):
        return [s]

    def st_FunctionDef(self, st, s, ctx):
        s.env[st.name] = unk("nested_def", st.name)
        return [s]

    def st_Expr(self, st, s, ctx):
        if isinstance(st.value, ast.Call):
            call = st.value
            outs = [k for k in call.keywords if k.arg == "out" and isinstance(k.value, ast.Name)]
            if outs:
                # numpy routine writing its result into out=<name>: evaluate it without the keyword, then the name (and every
                # other name bound to the same array) holds the result
                import copy as _copy
                c2 = _copy.copy(call)
                c2.keywords = [k for k in call.keywords if k.arg != "out"]
                v = self.ev(c2, s.env, ctx)
                tgt = outs[0].value.id
                self.store_log.append((ctx.finfo.fq, tgt, "out", v, st.lineno, "out=", norm_text(st)))
                grp = s.env.get("__alias__", {}).get(tgt)
                s.env[tgt] = v
                if tgt in ctx.finfo.params:
                    ctx.mutated[tgt] = v
                if grp:
                    self._alias_update(tgt, v, s, ctx, st)
                return [s]
            # receiver-mutating ndarray methods used as statements: x.sort(), x.fill(v)
            if isinstance(call.func, ast.Attribute) and isinstance(call.func.value, ast.Name) and call.func.attr in ("sort", "fill") \
                    and isinstance(s.env.get(call.func.value.id), Rat):
                nm = call.func.value.id
                cur = s.env[nm]
                if call.func.attr == "sort":
                    axv = None
                    for k_ in call.keywords:
                        if k_.arg == "axis":
                            axv = self.ev(k_.value, s.env, ctx)
                    new = Rat.atom(Fn("sort", (cur,) if axv is None else (cur, ("kw:axis", axv))))
                else:
                    new = self.ev(call.args[0], s.env, ctx) if call.args else unk("fill")
                self.store_log.append((ctx.finfo.fq, nm, "inplace", new, st.lineno, call.func.attr, norm_text(st)))
                s.env[nm] = new
                if nm in ctx.finfo.params:
                    ctx.mutated[nm] = new
                self._alias_update(nm, new, s, ctx, st)
                return [s]
            self.ev(st.value, s.env, ctx, stmt_call=True)
        return [s]

    def st_Return(self, st, s, ctx):
        s.ret = self.ev(st.value, s.env, ctx) if st.value is not None else None
        return [s]

    def st_Raise(self, st, s, ctx):
        s.ret = RAISE
        return [s]

    def st_Break(self, st, s, ctx):
        s.flow = "break"
        return [s]

    def st_Continue(self, st, s, ctx):
        s.flow = "continue"
        return [s]

    def st_Assign(self, st, s, ctx):
        v = self.ev(st.value, s.env, ctx)
        for t in st.targets:
            self.assign(t, v, s, ctx, st)
        # names bound to freshly allocated arrays (their normal form may be a constant, e.g. zeros -> 0)
        if len(st.targets) == 1 and isinstance(st.targets[0], ast.Name):
            arrs = s.env.get("__arrays__", frozenset())
            tn = st.targets[0].id
            if isinstance(st.value, ast.Call) and norm_text(st.value.func).split(".")[-1] in ALLOCATORS:
                s.env["__arrays__"] = arrs | {tn}
                a0 = st.value.args[0] if st.value.args else None
                if norm_text(st.value.func).split(".")[-1] in ("zeros", "ones", "empty", "full") and isinstance(a0, (ast.Tuple, ast.List)):
                    rk = dict(s.env.get("__ranks__", {}))
                    rk[tn] = len(a0.elts)
                    s.env["__ranks__"] = rk
            elif isinstance(st.value, ast.Name) and st.value.id in arrs:
                s.env["__arrays__"] = arrs | {tn}
            elif tn in arrs:
                s.env["__arrays__"] = arrs - {tn}
        # `t = a[i]` / `t = a[i:j]` on an array is a *view*: an in-place operator on t writes into a
        if len(st.targets) == 1 and isinstance(st.targets[0], ast.Name):
            vw = dict(s.env.get("__views__", {}))
            tn = st.targets[0].id
            vw.pop(tn, None)
            if isinstance(st.value, ast.Subscript) and isinstance(st.value.value, ast.Name) and isinstance(v, Rat):
                bn = st.value.value.id
                sl = st.value.slice
                parts = sl.elts if isinstance(sl, ast.Tuple) else [sl]
                n_int = sum(1 for x in parts if not isinstance(x, ast.Slice) and not (isinstance(x, ast.Constant) and x.value in (None, Ellipsis)))
                has_slice = any(isinstance(x, ast.Slice) for x in parts)
                rank = s.env.get("__ranks__", {}).get(bn)
                is_arr = bn in s.env.get("__arrays__", ()) or maybe_array(s.env.get(bn))
                if is_arr and (has_slice or (rank is not None and n_int < rank)):
                    vw[tn] = (st.value.value, st.value.slice, "view")
                elif is_arr and rank is None:
                    vw[tn] = (st.value.value, st.value.slice, "maybe")
            # any rebinding of the base invalidates views of it
            for k_ in [k_ for k_, x in vw.items() if isinstance(x[0], ast.Name) and x[0].id == tn]:
                vw.pop(k_)
            s.env["__views__"] = vw
        # `a = b` binds a second name to the same array object: remember it, an in-place update of one is one of both
        if len(st.targets) == 1 and isinstance(st.targets[0], ast.Name) and isinstance(st.value, ast.Name) \
                and st.targets[0].id != st.value.id and (maybe_array(v) or st.value.id in s.env.get("__arrays__", ())):
            al = s.env.setdefault("__alias__", {})
            grp = set(al.get(st.value.id, (st.value.id,))) | {st.targets[0].id}
            for n in grp:
                al[n] = frozenset(grp)
        return [s]

    def _alias_update(self, name, new, s, ctx, st):
        al = s.env.get("__alias__")
        if not al or name not in al:
            return
        for other in sorted(al[name]):
            if other != name:
                s.env[other] = new
                self.alias_log.append((ctx.finfo.fq, st.lineno, name, other, norm_text(st), "line"))

    def st_AnnAssign(self, st, s, ctx):
        if st.value is not None:
            self.assign(st.target, self.ev(st.value, s.env, ctx), s, ctx, st)
        return [s]

    def st_AugAssign(self, st, s, ctx):
        rhs = self.ev(st.value, s.env, ctx)
        t = st.target
        if isinstance(t, ast.Subscript):
            idx0 = self.ev_index(t.slice, s.env, ctx)
            for idx, rhs_ in (_split_block_store(idx0, rhs) or [(idx0, rhs)]):
                base = self.ev(t.value, s.env, ctx)
                self.store_log.append((ctx.finfo.fq, norm_text(t.value), idx, rhs_, st.lineno,
                                       type(st.op).__name__, norm_text(st)))
                if isinstance(base, Rat):
                    old = Rat.atom(Fn("getitem", (base, idx)))
                    new = self.binop(st.op, old, rhs_)
                    nv = Rat.atom(Fn("setitem", (base, idx, new)))
                    self.rebind(t.value, nv, s, ctx)
                    if isinstance(t.value, ast.Name):
                        self._alias_update(t.value.id, nv, s, ctx, st)
            return [s]
        vw = s.env.get("__views__", {}).get(t.id) if isinstance(t, ast.Name) else None
        if vw is not None and vw[2] == "view":
            # in-place operator through a view: it is the store  base[index] op= rhs
            sub = ast.Subscript(value=vw[0], slice=vw[1], ctx=ast.Store())
            node = ast.AugAssign(target=sub, op=st.op, value=st.value)
            ast.copy_location(node, st)
            ast.fix_missing_locations(node)
            out = self.st_AugAssign(node, s, ctx)
            for s_ in out:
                s_.env[t.id] = self.ev(ast.Subscript(value=vw[0], slice=vw[1], ctx=ast.Load()), s_.env, ctx)
            return out
        cur = self.ev(_load(t), s.env, ctx)
        new = self.binop(st.op, cur, rhs)
        if vw is not None and vw[2] == "maybe" and maybe_array(cur):
            new = unk("inplace_on_element_or_view", t.id, st.lineno)
        grp = s.env.get("__alias__", {}).get(t.id) if isinstance(t, ast.Name) else None
        self.assign(t, new, s, ctx, st, aug=True)
        if grp and (maybe_array(cur) or t.id in s.env.get("__arrays__", ())):
            # ndarray in-place operator: every name bound to the same object sees the new contents
            al = s.env.setdefault("__alias__", {})
            for n in grp:
                al[n] = grp
            self._alias_update(t.id, new, s, ctx, st)
        return [s]

    def rebind(self, target_expr, value, s, ctx):
        if isinstance(target_expr, ast.Name):
            s.env[target_expr.id] = value
            if target_expr.id in ctx.finfo.params:
                ctx.mutated[target_expr.id] = value
        elif isinstance(target_expr, ast.Attribute):
            o = self.ev(target_expr.value, s.env, ctx)
            if isinstance(o, Obj):
                o.attrs[target_expr.attr] = value

    def assign(self, t, v, s, ctx, st, aug=False):
        fq = ctx.finfo.fq
        if isinstance(t, ast.Name):
            s.env[t.id] = v
            self.assign_log.append((fq, t.id, st.lineno, v, s.conds))
            al = s.env.get("__alias__")
            if al and t.id in al:
                grp = al.pop(t.id) - {t.id}
                for n in grp:
                    if len(grp) > 1:
                        al[n] = grp
                    else:
                        al.pop(n, None)
        elif isinstance(t, (ast.Tuple, ast.List)):
            vals = self.unpack(v, len(t.elts))
            for te, ve in zip(t.elts, vals):
                self.assign(te, ve, s, ctx, st)
        elif isinstance(t, ast.Attribute):
            o = self.ev(t.value, s.env, ctx)
            if isinstance(o, Obj):
                o.attrs[t.attr] = v
                o.attr_log.append((t.attr, v, fq, st.lineno))
                self.assign_log.append((fq, "self." + t.attr, st.lineno, v, s.conds))
            else:
                # attribute store on a value (e.g. new_row.shape = ...): metadata only
                self.store_log.append((fq, norm_text(t.value), ("attr", t.attr), v, st.lineno,
                                       "attr", norm_text(st)))
        elif isinstance(t, ast.Subscript):
            base = self.ev(t.value, s.env, ctx)
            idx = self.ev_index(t.slice, s.env, ctx)
            vw = s.env.get("__views__", {}).get(t.value.id) if isinstance(t.value, ast.Name) else None
            whole = idx is Ellipsis or _is_full_slice(idx) or (isinstance(idx, tuple) and not _is_slice(idx) and idx and
                                                               all(x is Ellipsis or _is_full_slice(x) for x in idx))
            if vw is not None and vw[2] == "view" and whole:
                # item[...] = v through a view of base[index]: the store  base[index] = v
                sub = ast.Subscript(value=vw[0], slice=vw[1], ctx=ast.Store())
                ast.copy_location(sub, t)
                ast.fix_missing_locations(sub)
                self.assign(sub, v, s, ctx, st)
                s.env[t.value.id] = v
                return
            self.store_log.append((fq, norm_text(t.value), idx, v, st.lineno, "=", norm_text(st)))
            if isinstance(base, Rat):
                nv = Rat.atom(Fn("setitem", (base, idx, v)))
                self.rebind(t.value, nv, s, ctx)
                if isinstance(t.value, ast.Name):
                    self._alias_update(t.value.id, nv, s, ctx, st)
            elif isinstance(base, list) and isinstance(idx, Rat) and isinstance(pyconst(idx), int):
                base[pyconst(idx)] = v
        elif isinstance(t, ast.Starred):
            pass

    def unpack(self, v, n):
        if isinstance(v, (tuple, list)) and len(v) == n:
            return list(v)
        if isinstance(v, ShapeOf):
            # unpacking fixes the rank: name the extents by their negative index
            return [self.shape_elem(v.v, i - n, n) for i in range(n)]
        if isinstance(v, ShapeTail):
            # a, b = x.shape[k:] fixes the rank at k + 2: the extents are the trailing ones
            return [self.shape_elem(v.v, i - n, n + v.skip) for i in range(n)]
        if isinstance(v, Rat):
            d = v.single_atom()
            if isinstance(d, Fn) and d.name == "array" and len(d.args) == 1 and isinstance(d.args[0], tuple) and len(d.args[0]) == n and \
                    all(isinstance(q, Rat) for q in d.args[0]):
                return list(d.args[0])          # a stack written out item by item
            if isinstance(d, Fn) and d.name == "draw" and isinstance(d.args[4], tuple) and len(d.args[4]) >= 2 and \
                    isinstance(d.args[4][0], Rat) and pyconst(d.args[4][0]) == n and isinstance(d.args[0], Rat) and \
                    self.draw_counts.get(d.args[0].key()) == d.args[5]:
                # a, b = R.normal(size=(2,) + shape): a Generator fills its output sequentially with no state kept between
                # calls, so the leading slices are the draws R.normal(size=shape) made one after the other
                k_ = d.args[0].key()
                rest = d.args[4][1:]
                rest = rest[0] if len(rest) == 1 else tuple(rest)
                out = [Rat.atom(Fn("draw", d.args[:4] + (rest, d.args[5] + i, d.args[6]))) for i in range(n)]
                self.draw_counts[k_] = d.args[5] + n - 1
                return out
            return [self._row_of_transpose(v, Rat.const(i)) or Rat.atom(Fn("getitem", (v, Rat.const(i)))) for i in range(n)]
        return [unk("unpack", i) for i in range(n)]

    def _row_of_transpose(self, v, k):
        """x.T[k] is x[:, k] for an array x the driver has declared two-dimensional (Interp.rank2: names of such values)"""
        a = v.single_atom() if isinstance(v, Rat) else None
        if isinstance(a, Fn) and a.name == "T" and len(a.args) == 1 and isinstance(a.args[0], Rat):
            b = a.args[0].single_atom()
            if isinstance(b, Sym) and b.name in getattr(self, "rank2", ()) and isinstance(k, Rat) and isinstance(pyconst(k), int):
                return Rat.atom(Fn("getitem", (a.args[0], (("slice", Rat.const(0), None, None), k))))
        return None

    def st_If(self, st, s, ctx):
        t = self.truth(st.test, s.env, ctx)
        forced = getattr(self, "force", None)
        if forced and norm_text(st.test) in forced:
            t = forced[norm_text(st.test)]
        if t is True:
            return self.exec_block(st.body, [s], ctx)
        if t is False:
            return self.exec_block(st.orelse, [s], ctx)
        if isinstance(st.test, ast.UnaryOp) and isinstance(st.test.op, ast.Not) and not (forced and norm_text(st.test) in forced):
            # `if not c: A else: B` is `if c: B else: A`: the decision recorded on the path is the one about c
            node = ast.If(test=st.test.operand, body=st.orelse or [ast.Pass()], orelse=st.body)
            ast.copy_location(node, st)
            ast.fix_missing_locations(node)
            return self.st_If(node, s, ctx)
        if isinstance(st.test, ast.Compare) and len(st.test.ops) == 1 and isinstance(st.test.ops[0], (ast.NotEq, ast.IsNot)) and \
                not (forced and norm_text(st.test) in forced):
            # `if a != b: A else: B` is `if a == b: B else: A` (and `is not` likewise): one spelling of the decision per path
            pos = ast.Compare(left=st.test.left, ops=[ast.Eq() if isinstance(st.test.ops[0], ast.NotEq) else ast.Is()],
                              comparators=st.test.comparators)
            node = ast.If(test=pos, body=st.orelse or [ast.Pass()], orelse=st.body)
            ast.copy_location(node, st)
            ast.fix_missing_locations(node)
            return self.st_If(node, s, ctx)
        if isinstance(st.test, ast.BoolOp) and len(st.test.values) >= 2 and not (forced and norm_text(st.test) in forced):
            # `if A and B: X else: Y`  is  `if A: (if B: X else: Y) else: Y` ; `if A or B: X else: Y`  is  `if A: X else: (if B: X else: Y)`
            # - every branch decision of a path is then one atomic condition
            first = st.test.values[0]
            rest = st.test.values[1] if len(st.test.values) == 2 else ast.BoolOp(op=st.test.op, values=st.test.values[1:])
            inner = ast.If(test=rest, body=st.body, orelse=st.orelse)
            if isinstance(st.test.op, ast.And):
                outer = ast.If(test=first, body=[inner], orelse=st.orelse)
            else:
                outer = ast.If(test=first, body=st.body, orelse=[inner])
            for n_ in (rest, inner, outer):
                ast.copy_location(n_, st)
            ast.fix_missing_locations(outer)
            return self.st_If(outer, s, ctx)
        seq_ = None
        if isinstance(st.test, ast.Compare) and len(st.test.ops) == 1 and isinstance(st.test.ops[0], (ast.In, ast.NotIn)):
            seq_ = st.test.comparators[0]
            if isinstance(seq_, ast.Name) and seq_.id not in s.env:
                # a module-level tuple of alternatives (`_COMPLEX_DTYPES = (numpy.complex64, numpy.complex128)`)
                b_ = self.ix.namespace(ctx.finfo.module.name).get(seq_.id)
                seq_ = b_.target if (b_ is not None and b_.kind == "value" and isinstance(b_.target, (ast.Tuple, ast.List))) else None
        if seq_ is not None and isinstance(seq_, (ast.Tuple, ast.List, ast.Set)) and 2 <= len(seq_.elts) <= 4 and \
                all((isinstance(e_, ast.Constant) and isinstance(e_.value, (int, str))) or isinstance(e_, (ast.Name, ast.Attribute)) for e_ in seq_.elts) and \
                not (forced and norm_text(st.test) in forced):
            # `x in (a, b)` over a short literal sequence is `x == a or x == b`: one atomic decision per alternative
            alts = ast.BoolOp(op=ast.Or(), values=[ast.Compare(left=st.test.left, ops=[ast.Eq()], comparators=[e_])
                                                   for e_ in seq_.elts])
            pos = isinstance(st.test.ops[0], ast.In)
            node = ast.If(test=alts, body=st.body if pos else (st.orelse or [ast.Pass()]), orelse=st.orelse if pos else st.body)
            ast.copy_location(node, st)
            ast.fix_missing_locations(node)
            return self.st_If(node, s, ctx)
        txt = norm_text(st.test)
        tv = self.ev(st.test, s.env, ctx)
        k = vkey(tv) if isinstance(tv, Rat) and not has_unknown(tv) else None
        if k is not None and k in s.facts:
            return self.exec_block(st.body if s.facts[k] else st.orelse, [s], ctx)
        a = s.fork(txt)
        b = s.fork("not (%s)" % txt)
        if k is not None:
            a.facts[k] = True
            b.facts[k] = False
        a.cond_nf = a.cond_nf + ((tv, True),)
        b.cond_nf = b.cond_nf + ((tv, False),)
        return self.exec_block(st.body, [a], ctx) + self.exec_block(st.orelse, [b], ctx)

    def st_With(self, st, s, ctx):
        for it in st.items:
            v = self.ev(it.context_expr, s.env, ctx)
            if it.optional_vars is not None:
                self.assign(it.optional_vars, v, s, ctx, st)
        return self.exec_block(st.body, [s], ctx)

    def st_Try(self, st, s, ctx):
        pre = s.fork()
        out = self.exec_block(st.body, [s], ctx)
        for h in st.handlers:
            if len(h.body) == 1 and isinstance(h.body[0], ast.Raise):
                continue
            hs = pre.fork("except %s" % (norm_text(h.type) if h.type is not None else ""))
            # the decision `the guarded block raised` is part of the path: a caller that inlines this function sees it too
            hs.cond_nf = hs.cond_nf + ((Rat.atom(Fn("raised", (norm_text(h.type) if h.type is not None else "", st.lineno))), True),)
            if h.name:
                hs.env[h.name] = unk("exc")
            out.extend(self.exec_block(h.body, [hs], ctx))
        res = []
        for o in out:
            if o.live and st.orelse:
                res.extend(self.exec_block(st.orelse, [o], ctx))
            else:
                res.append(o)
        if st.finalbody:
            res2 = []
            for o in res:
                if o.live:
                    res2.extend(self.exec_block(st.finalbody, [o], ctx))
                else:
                    res2.append(o)
            res = res2
        return res

    def _assigned_names(self, body):
        names, attrs = [], []
        for node in body:
            for n in ast.walk(node):
                if isinstance(n, ast.Name) and isinstance(n.ctx, ast.Store):
                    if n.id not in names:
                        names.append(n.id)
                elif isinstance(n, ast.AugAssign) and isinstance(n.target, ast.Attribute):
                    attrs.append(n.target)
                elif isinstance(n, ast.Attribute) and isinstance(n.ctx, ast.Store):
                    attrs.append(n)
                elif isinstance(n, ast.Subscript) and isinstance(n.ctx, ast.Store):
                    b = n.value
                    while isinstance(b, ast.Subscript):
                        b = b.value
                    if isinstance(b, ast.Name) and b.id not in names:
                        names.append(b.id)
                    elif isinstance(b, ast.Attribute):
                        attrs.append(b)
        return names, attrs

    def _unit_counter(self, body, name):
        """every write of `name` in the (nested) body is `name += 1`, executed exactly once per innermost iteration: a
        statement of the body of the innermost loop that contains it, not under an `if`"""
        found = [False]

        def block(stmts, in_loop_body):
            for st_ in stmts:
                if isinstance(st_, ast.AugAssign) and isinstance(st_.target, ast.Name) and st_.target.id == name:
                    if not (isinstance(st_.op, ast.Add) and isinstance(st_.value, ast.Constant) and st_.value.value == 1):
                        return False
                    found[0] = True
                    continue
                if isinstance(st_, ast.For):
                    if any(isinstance(x, ast.Name) and x.id == name and isinstance(x.ctx, ast.Store) for x in ast.walk(st_)):
                        # the counter is advanced inside the nested loop: then not also at this level
                        if not block(st_.body, True):
                            return False
                    continue
                if any(isinstance(x, ast.Name) and x.id == name and isinstance(x.ctx, ast.Store) for x in ast.walk(st_)):
                    return False        # written under an if / while / try, or plainly assigned
            return True
        ok = block(body, True)
        if not ok or not found[0]:
            return False
        # not advanced at two nesting levels at once
        levels = set()

        def depth_of(stmts, d):
            for st_ in stmts:
                if isinstance(st_, ast.AugAssign) and isinstance(st_.target, ast.Name) and st_.target.id == name:
                    levels.add(d)
                elif isinstance(st_, ast.For):
                    depth_of(st_.body, d + 1)
        depth_of(body, 0)
        return len(levels) == 1

    def _logs(self):
        return [self.assign_log, self.store_log, self.call_log, self.loop_log, self.alloc_log, self.alias_log, self.while_log]

    def _alias_carried(self, body):
        """[(t, s, in-place statement)] for `t = s` (both plain names) followed in the body by an in-place write to t"""
        out = []
        pairs = []
        for node in body:
            for n in ast.walk(node):
                if isinstance(n, ast.Assign) and len(n.targets) == 1 and isinstance(n.targets[0], ast.Name) \
                        and isinstance(n.value, ast.Name) and n.value.id != n.targets[0].id:
                    pairs.append((n.targets[0].id, n.value.id, n.lineno))
        for t, s_, ln in pairs:
            for node in body:
                for n in ast.walk(node):
                    hit = False
                    if isinstance(n, ast.AugAssign) and n.lineno > ln:
                        b = n.target
                        while isinstance(b, ast.Subscript):
                            b = b.value
                        hit = isinstance(b, ast.Name) and b.id == t
                    elif isinstance(n, ast.Assign) and n.lineno > ln:
                        for tg in n.targets:
                            if isinstance(tg, ast.Subscript):
                                b = tg.value
                                while isinstance(b, ast.Subscript):
                                    b = b.value
                                hit = hit or (isinstance(b, ast.Name) and b.id == t)
                    if hit:
                        out.append((t, s_, n))
        return out

    def _accum_terms(self, body, name):
        """If every top-level write of `name` in body is `name += e` / `name = name + e`
        return the list of e nodes, else None."""
        terms = []
        for st in body:
            writes = [n for n in ast.walk(st) if isinstance(n, ast.Name) and n.id == name
                      and isinstance(n.ctx, ast.Store)]
            if not writes:
                continue
            if isinstance(st, ast.For) and self._accum_terms(st.body, name) is not None and not st.orelse:
                terms.append(st)
                continue
            if isinstance(st, ast.AugAssign) and isinstance(st.target, ast.Name) and st.target.id == name \
                    and isinstance(st.op, ast.Add):
                terms.append(st.value)
                continue
            if isinstance(st, ast.Assign) and len(st.targets) == 1 and isinstance(st.targets[0], ast.Name) \
                    and st.targets[0].id == name and isinstance(st.value, ast.BinOp) \
                    and isinstance(st.value.op, ast.Add):
                l, r = st.value.left, st.value.right
                if isinstance(l, ast.Name) and l.id == name:
                    terms.append(r)
                    continue
                if isinstance(r, ast.Name) and r.id == name:
                    terms.append(l)
                    continue
            return None
        return terms or None

    def st_For(self, st, s, ctx):
        # for a, b in numpy.ndindex(n, m): ...   is   for a in range(n): for b in range(m): ...   (row-major order)
        if isinstance(st.iter, ast.Call) and norm_text(st.iter.func).split(".")[-1] == "ndindex" and isinstance(st.target, ast.Tuple) \
                and len(st.target.elts) == len(st.iter.args) >= 1 and all(isinstance(t_, ast.Name) for t_ in st.target.elts) \
                and not st.iter.keywords and not st.orelse and not any(isinstance(a_, (ast.Tuple, ast.Starred)) for a_ in st.iter.args):
            body = st.body
            for t_, a_ in reversed(list(zip(st.target.elts, st.iter.args))):
                rng = ast.Call(func=ast.Name(id="range", ctx=ast.Load()), args=[a_], keywords=[])
                loop = ast.For(target=t_, iter=rng, body=body, orelse=[])
                ast.copy_location(loop, st)
                ast.fix_missing_locations(loop)
                body = [loop]
            return self.st_For(body[0], s, ctx)
        # for a, b in itertools.product(A, B): ...  is  for a in A: for b in B: ...  ; product(A, repeat=k) nests A k times
        if isinstance(st.iter, ast.Call) and norm_text(st.iter.func).split(".")[-1] == "product" and isinstance(st.target, ast.Tuple) \
                and all(isinstance(t_, ast.Name) for t_ in st.target.elts) and not st.orelse \
                and not any(isinstance(a_, ast.Starred) for a_ in st.iter.args) and st.iter.args:
            b_ = self.ix.resolve_call(ctx.finfo, st.iter) if hasattr(self.ix, "resolve_call") else None
            rep_ = [kw_ for kw_ in st.iter.keywords if kw_.arg == "repeat"]
            its = list(st.iter.args)
            if len(rep_) == 1 and isinstance(rep_[0].value, ast.Constant) and isinstance(rep_[0].value.value, int) and len(st.iter.keywords) == 1:
                its = its * rep_[0].value.value
            elif st.iter.keywords:
                its = None
            if its is not None and len(its) == len(st.target.elts) and b_ is not None and getattr(b_, "target", None) == "itertools.product":
                body = st.body
                for t_, a_ in reversed(list(zip(st.target.elts, its))):
                    loop = ast.For(target=t_, iter=a_, body=body, orelse=[])
                    ast.copy_location(loop, st)
                    ast.fix_missing_locations(loop)
                    body = [loop]
                return self.st_For(body[0], s, ctx)
        # for i, j in zip(*numpy.tril_indices(n)): ...   is   for i in range(n): for j in range(i + 1): ...
        # for i, j in zip(*numpy.triu_indices(n)): ...   is   for i in range(n): for j in range(i, n): ...      (row-major order)
        if isinstance(st.iter, ast.Call) and norm_text(st.iter.func) == "zip" and len(st.iter.args) == 1 and not st.iter.keywords \
                and isinstance(st.iter.args[0], ast.Starred) and isinstance(st.iter.args[0].value, ast.Call) \
                and norm_text(st.iter.args[0].value.func).split(".")[-1] in ("tril_indices", "triu_indices") \
                and len(st.iter.args[0].value.args) == 1 and not st.iter.args[0].value.keywords \
                and isinstance(st.target, ast.Tuple) and len(st.target.elts) == 2 and all(isinstance(t_, ast.Name) for t_ in st.target.elts) \
                and not st.orelse:
            n_ = st.iter.args[0].value.args[0]
            ti, tj = st.target.elts
            load = lambda t_: ast.Name(id=t_.id, ctx=ast.Load())
            if norm_text(st.iter.args[0].value.func).split(".")[-1] == "tril_indices":
                inner_args = [ast.BinOp(left=load(ti), op=ast.Add(), right=ast.Constant(value=1))]
            else:
                inner_args = [load(ti), n_]
            inner = ast.For(target=tj, iter=ast.Call(func=ast.Name(id="range", ctx=ast.Load()), args=inner_args, keywords=[]),
                            body=st.body, orelse=[])
            outer = ast.For(target=ti, iter=ast.Call(func=ast.Name(id="range", ctx=ast.Load()), args=[n_], keywords=[]),
                            body=[inner], orelse=[])
            for x_ in (inner, outer):
                ast.copy_location(x_, st)
                ast.fix_missing_locations(x_)
            return self.st_For(outer, s, ctx)
        it = self.ev(st.iter, s.env, ctx)
        if isinstance(it, GenVal):
            it = it.remaining() if not it.done else unk("exhausted_generator")
        fq = ctx.finfo.fq
        if isinstance(it, (tuple, list)) and not _is_slice(it) and not (isinstance(it, SeqList) and it.seq() is not None) \
                and 1 <= len(it) <= 16 and not st.orelse and not (it and isinstance(it[0], str) and it[0] in ("enumerate", "zip", "slice")) and \
                all(isinstance(x, (Rat, tuple, list, str, bool, type(None))) for x in it) and \
                not any(isinstance(n_, (ast.Break, ast.Continue)) for b_ in st.body for n_ in ast.walk(b_)):
            # a loop over a literal sequence of known length is the straight-line code of its iterations
            if not hasattr(self, "unrolled_log"):
                self.unrolled_log = []
            self.unrolled_log.append((fq, st.lineno, len(it)))
            states = [s]
            for item in it:
                for s_ in states:
                    if s_.live:
                        self.assign(st.target, item, s_, ctx, st)
                states = self.exec_block(st.body, states, ctx)
            return states
        ctx.loop_depth += 1
        tag = "L@%s" % ctx.loop_depth          # alpha-renamed loop variable: nesting depth, not the source name
        if not hasattr(ctx, "loop_stack"):
            ctx.loop_stack = []
        over_ = _range_of_listcomp(it, tag)
        idx_name = "%s#" % tag
        if over_ is None and isinstance(it, tuple) and len(it) == 2 and it[0] == "zip" and isinstance(it[1], tuple) and it[1]:
            # zip of sequences that all have the same statically known, constant number of items n: the loop is
            # `for k in range(n)` reading item k of each
            ns_ = [leading_length(x) if isinstance(x, Rat) else None for x in it[1]]
            if all(n_ is not None for n_ in ns_) and len(set(ns_)) == 1:
                k_ = Rat.sym(tag, ("int", "loopvar"))
                over_ = (RangeVal(Rat.const(0), Rat.const(ns_[0]), Rat.const(1)), tuple(self.elem(x, k_) for x in it[1]))
                idx_name = tag
        if over_ is not None:
            it = over_[0]
        ctx.loop_stack.append((tag, _itkey(it), st))
        # bind loop target symbolically
        body_state = s.fork("for %s in %s" % (norm_text(st.target), norm_text(st.iter)))
        tv = over_[1] if over_ is not None else self.loop_target_value(st.target, it, tag)
        self.assign(st.target, tv, body_state, ctx, st)
        # iterating an array of rank >= 2 yields *views* of its items: an in-place update of the item is one of the array
        pairs = []
        if isinstance(st.iter, ast.Name) and isinstance(st.target, ast.Name):
            pairs = [(st.target.id, st.iter.id)]
        elif isinstance(st.iter, ast.Call) and norm_text(st.iter.func) == "enumerate" and st.iter.args and isinstance(st.iter.args[0], ast.Name) \
                and isinstance(st.target, ast.Tuple) and len(st.target.elts) == 2 and isinstance(st.target.elts[1], ast.Name):
            pairs = [(st.target.elts[1].id, st.iter.args[0].id)]
        elif isinstance(st.iter, ast.Call) and norm_text(st.iter.func) == "zip" and isinstance(st.target, ast.Tuple) and \
                len(st.target.elts) == len(st.iter.args) and not st.iter.keywords:
            pairs = [(t_.id, a_.id) for t_, a_ in zip(st.target.elts, st.iter.args) if isinstance(t_, ast.Name) and isinstance(a_, ast.Name)]
        for tn_, bn_ in pairs:
            rk_ = body_state.env.get("__ranks__", {}).get(bn_)
            if rk_ is not None and rk_ >= 2 and bn_ in body_state.env.get("__arrays__", ()):
                iname = "__idx@%s" % tag
                body_state.env[iname] = Rat.sym(idx_name, ("int", "loopvar"))
                vw_ = dict(body_state.env.get("__views__", {}))
                vw_[tn_] = (ast.Name(id=bn_, ctx=ast.Load()), ast.Name(id=iname, ctx=ast.Load()), "view")
                body_state.env["__views__"] = vw_
        names, attrs = self._assigned_names(st.body)
        tnames = [n.id for n in ast.walk(st.target) if isinstance(n, ast.Name)]
        carried = [n for n in names if n not in tnames]
        entry = {}
        really_carried = []
        # a name bound (by `t = s`) to an array from outside the loop and then updated in place: the update is an
        # update of `s`, which the next iteration reads again - `s` is carried from one iteration to the next
        for t_, s_, node_ in self._alias_carried(st.body):
            if s_ not in names and s_ not in tnames and s_ in s.env and \
                    (maybe_array(s.env[s_]) or s_ in s.env.get("__arrays__", ())):
                body_state.env[s_] = unk("carried", s_, st.lineno)
                self.alias_log.append((fq, node_.lineno, t_, s_, norm_text(node_), "loop"))
        for n in carried:
            if n in s.env:
                entry[n] = s.env[n]
                # loop-carried value at iteration entry: symbolic
                if self._accum_terms(st.body, n) is None and self._is_read_before_write(st.body, n) \
                        and not self._elementwise_own_index(st.body, n, tnames):
                    body_state.env[n] = unk("carried", n, st.lineno)
                    really_carried.append(n)
        tv_rng = Rat.sym(tag, ("int", "loopvar")) if (over_ is not None and isinstance(it, RangeVal)) else tv
        if really_carried and isinstance(it, RangeVal) and isinstance(tv_rng, Rat) and isinstance(tv_rng.single_atom(), Sym):
            # induction on the trip count: if the value carried into the next iteration is a function g(i) of the loop variable
            # only (not of what was carried in), then iteration i > lo starts with g(i - step); if the value the loop is entered
            # with equals g(lo - step) as well, every iteration starts with g(i - step).  Probe pass, then the real pass.
            marks = [len(x) for x in self._logs()]
            probe = body_state.fork()
            p_outs = [o for o in self.exec_block(st.body, [probe], ctx) if o.ret is NORET and o.flow in (None, "continue")]
            for lg, m_ in zip(self._logs(), marks):
                del lg[m_:]
            lvs = tv_rng.single_atom()
            for n in really_carried:
                upd = [o.env.get(n) for o in p_outs]
                if not upd or not all(isinstance(u, Rat) for u in upd) or any(vkey(u) != vkey(upd[0]) for u in upd):
                    continue
                g = upd[0]
                if has_unknown(g):
                    continue
                prev = g.subst(lambda a: (tv_rng - it.step) if a == lvs else None)
                at_entry = g.subst(lambda a: (it.lo - it.step) if a == lvs else None)
                e0 = entry.get(n)
                if isinstance(e0, Rat) and (vkey(e0) == vkey(at_entry) or _safe_equals(e0, at_entry)):
                    body_state.env[n] = prev
        # a counter advanced by exactly one per innermost iteration numbers the iterations: inside the body it holds
        # start + rank(iteration) for the nest from the loop where it starts
        body_start = {}
        for n in carried:
            if n in entry and self._unit_counter(st.body, n):
                e0 = entry[n]
                ra = e0.single_atom() if isinstance(e0, Rat) else None
                if isinstance(e0, Rat) and e0.is_const():
                    body_state.env[n] = Rat.atom(Fn("rank", (e0, ((tag, _itkey(it)),))))
                    body_start[n] = body_state.env[n]
                elif isinstance(ra, Fn) and ra.name == "rank":
                    body_state.env[n] = Rat.atom(Fn("rank", (ra.args[0], tuple(ra.args[1]) + ((tag, _itkey(it)),))))
                    body_start[n] = body_state.env[n]
        outs = self.exec_block(st.body, [body_state], ctx)
        ctx.loop_stack.pop()
        ctx.loop_depth -= 1
        live = [o for o in outs if o.ret is NORET]
        rets = [o for o in outs if o.ret is not NORET and o.ret is not RAISE]
        for o in live:
            self.loop_log.append((fq, st.lineno, tv, it, o.env, o.conds, o.cond_nf))
        # state after the loop.  Inside a summary (loopsum / loopstore / loopfinal) the loop variable is a *bound* variable:
        # it is renamed (L@d -> B@d) so that it can never be captured by a later loop at the same depth.
        btag = "B" + tag[1:]

        def bound(v):
            if not isinstance(v, Rat):
                return v

            def f(a):
                if isinstance(a, Sym) and (a.name == tag or a.name == tag + "#"):
                    return Rat.atom(Sym(btag + a.name[len(tag):], a.flags))
                return None
            return v.subst(f)
        after = s
        # lists built by .append inside the body (one symbolic iteration per live path): keep what the body appended
        here = ((tag, _itkey(it)),)

        def extended(v0, news):
            """v0 + the items the body appended; each new item remembers the loop nest that produced it"""
            ext, prov = [], []
            for v1 in news:
                if isinstance(v1, list) and len(v1) > len(v0):
                    p1 = v1.prov if isinstance(v1, SeqList) else [()] * len(v1)
                    for k_ in range(len(v0), len(v1)):
                        ext.append(v1[k_])
                        prov.append(here + tuple(p1[k_]))
            if not ext:
                return None
            p0 = v0.prov if isinstance(v0, SeqList) else [()] * len(v0)
            return SeqList(list(v0) + ext, list(p0) + prov)
        for n, v0 in list(s.env.items()):
            if isinstance(v0, list):
                new_ = extended(v0, [o_.env.get(n) for o_ in live])
                if new_ is not None:
                    after.env[n] = new_
            elif isinstance(v0, Obj):
                for k_, a0 in list(v0.attrs.items()):
                    if isinstance(a0, list):
                        news = []
                        for o_ in live:
                            o1 = o_.env.get(n)
                            news.append(o1.attrs.get(k_) if isinstance(o1, Obj) else None)
                        new_ = extended(a0, news)
                        if new_ is not None:
                            v0.attrs[k_] = new_
        for n in carried:
            acc = self._accum_terms(st.body, n)
            if acc is not None and n in entry and len(live) == 1 and isinstance(entry[n], Rat):
                total = live[0].env.get(n)
                # body evaluated with env[n] = entry value: increment = total - entry
                if isinstance(total, Rat):
                    inc = total - body_start.get(n, entry[n])
                    after.env[n] = entry[n] + Rat.atom(Fn("loopsum", (bound(inc), btag, _itkey(it))))
                    continue
            vals = [o.env.get(n) for o in live]
            if vals and all(isinstance(v, Rat) and v.single_atom() is not None and
                            isinstance(v.single_atom(), Fn) and v.single_atom().name == "setitem"
                            for v in vals) and len(vals) == 1:
                after.env[n] = Rat.atom(Fn("loopstore", (bound(vals[0]), btag, _itkey(it))))
                continue
            if vals and all(isinstance(v, list) for v in vals):
                after.env[n] = unk("looplist", n, st.lineno)
                continue
            if len(vals) == 1 and isinstance(vals[0], Rat) and not has_unknown(vals[0]) and \
                    (n not in entry or isinstance(entry[n], Rat)):
                # plain (non-accumulating) assignment in the body: value of the last iteration,
                # or the entry value when the loop does not run
                after.env[n] = Rat.atom(Fn("loopfinal", (entry.get(n), bound(vals[0]), btag, _itkey(it))))
                continue
            after.env[n] = unk("loop", n, st.lineno)
        for n in tnames:
            after.env[n] = unk("loopvar", n, st.lineno)
        for a in attrs:
            o = self.ev(a.value, s.env, ctx) if isinstance(a, ast.Attribute) else None
            if isinstance(o, Obj):
                vals = [x.env for x in live]
                cur = o.attrs.get(a.attr)
                if isinstance(cur, Rat) and cur.single_atom() is not None and \
                        isinstance(cur.single_atom(), Fn) and cur.single_atom().name in ("setitem",):
                    o.attrs[a.attr] = Rat.atom(Fn("loopstore", (bound(cur), btag, _itkey(it))))
                elif isinstance(cur, list):
                    pass
                else:
                    o.attrs[a.attr] = unk("loopattr", a.attr, st.lineno)
        res = [after]
        if st.orelse:
            res = self.exec_block(st.orelse, res, ctx)
        return res + rets

    def _elementwise_own_index(self, body, name, tnames):
        """every use of `name` in the loop body is name[<loop var>] (read or store): iteration i only
        touches element i, so reads see the value from before the loop."""
        if len(tnames) != 1:
            return False
        iv = tnames[0]
        ok_ids = set()
        for st in body:
            for n in ast.walk(st):
                if isinstance(n, ast.Subscript) and isinstance(n.value, ast.Name) and n.value.id == name \
                        and isinstance(n.slice, ast.Name) and n.slice.id == iv:
                    ok_ids.add(id(n.value))
        for st in body:
            for n in ast.walk(st):
                if isinstance(n, ast.Name) and n.id == name and id(n) not in ok_ids:
                    return False
        # the loop variable itself must not be reassigned in the body
        for st in body:
            for n in ast.walk(st):
                if isinstance(n, ast.Name) and n.id == iv and isinstance(n.ctx, ast.Store):
                    return False
        return bool(ok_ids)

    def _is_read_before_write(self, body, name):
        """May some path through the loop body read `name` before the body has (definitely) written it?
        (the base of a subscript *store* is not a read of the array's contents)"""
        bases = set()
        for st in body:
            for n in ast.walk(st):
                if isinstance(n, ast.Subscript) and isinstance(n.ctx, ast.Store):
                    b = n.value
                    while isinstance(b, ast.Subscript):
                        b = b.value
                    if isinstance(b, ast.Name):
                        bases.add(id(b))

        def reads(node):
            return any(isinstance(n, ast.Name) and n.id == name and isinstance(n.ctx, ast.Load) and id(n) not in bases
                       for n in ast.walk(node))

        def writes_target(t):
            return any(isinstance(n, ast.Name) and n.id == name and isinstance(n.ctx, ast.Store) for n in ast.walk(t))

        def block(stmts, written):
            """returns (may_read_before_write, definitely_written_after)"""
            rbw = False
            for st in stmts:
                if isinstance(st, ast.Assign):
                    if not written and reads(st.value):
                        rbw = True
                    for t in st.targets:
                        if not written and not isinstance(t, ast.Name) and reads(t):
                            rbw = True
                        if isinstance(t, ast.Name) and t.id == name or (isinstance(t, (ast.Tuple, ast.List)) and writes_target(t)):
                            written = True
                elif isinstance(st, ast.AugAssign):
                    if not written and (reads(st.value) or (isinstance(st.target, ast.Name) and st.target.id == name) or reads(st.target)):
                        rbw = True
                    if isinstance(st.target, ast.Name) and st.target.id == name:
                        written = True
                elif isinstance(st, ast.If):
                    if not written and reads(st.test):
                        rbw = True
                    r1, w1 = block(st.body, written)
                    r2, w2 = block(st.orelse, written)
                    rbw = rbw or r1 or r2
                    written = w1 and w2
                elif isinstance(st, (ast.For, ast.While)):
                    hdr = st.iter if isinstance(st, ast.For) else st.test
                    if not written and reads(hdr):
                        rbw = True
                    r1, w1 = block(st.body, written)
                    rbw = rbw or r1
                    if isinstance(st, ast.For) and writes_target(st.target):
                        pass
                elif isinstance(st, ast.Try):
                    r1, w1 = block(st.body, written)
                    rbw = rbw or r1
                    for h in st.handlers:
                        r2, w2 = block(h.body, written)
                        rbw = rbw or r2
                        w1 = w1 and w2
                    written = w1
                elif isinstance(st, ast.With):
                    r1, written = block(st.body, written)
                    rbw = rbw or r1
                else:
                    if not written and reads(st):
                        rbw = True
            return rbw, written
        return block(body, False)[0]

    def loop_target_value(self, target, it, tag):
        if isinstance(it, RangeVal):
            return Rat.sym("%s" % tag, ("int", "loopvar"))
        if isinstance(it, tuple) and len(it) == 2 and it[0] == "enumerate":
            idx = Rat.sym("%s#" % tag, ("int", "loopvar"))
            return (idx, self.elem(it[1], idx))
        if isinstance(it, tuple) and len(it) == 3 and it[0] == "enumerate" and isinstance(it[2], Rat):
            idx = Rat.sym("%s#" % tag, ("int", "loopvar"))
            return (idx + it[2], self.elem(it[1], idx))
        if isinstance(it, tuple) and len(it) == 2 and it[0] == "zip" and isinstance(it[1], tuple):
            idx = Rat.sym("%s#" % tag, ("int", "loopvar"))
            return tuple(self.elem(x, idx) for x in it[1])
        idx = Rat.sym("%s#" % tag, ("int", "loopvar"))
        return self.elem(it, idx)

    def elem(self, seq, idx):
        if isinstance(seq, tuple) and len(seq) == 2 and seq[0] == "zip" and isinstance(seq[1], tuple):
            return tuple(self.elem(x, idx) for x in seq[1])         # item k of zip(a, b, ...) is (a[k], b[k], ...)
        if isinstance(seq, RangeVal) and isinstance(idx, Rat):
            return seq.lo + idx * seq.step          # item k of range(lo, hi, step)
        if isinstance(seq, Rat):
            pushed = _item_of_leading_broadcast(seq, idx)
            if pushed is not None:
                return pushed
            a_ = seq.single_atom()
            if isinstance(a_, Fn) and a_.name == "getitem" and isinstance(a_.args[0], Rat) and isinstance(idx, Rat) and \
                    static_shape(a_.args[0]) is not None:
                # item j of the item x[i] of an array of known rank is x[i, j] (iteration over the rows, then over their elements)
                prev = a_.args[1] if isinstance(a_.args[1], tuple) and not _is_slice(a_.args[1]) else (a_.args[1],)
                is_int_ = lambda q: isinstance(q, Rat) and (q.is_const() or all(isinstance(t, Sym) and ("loopvar" in t.flags or "int" in t.flags)
                                                                                  for t in q.atoms()))
                if all(is_int_(q) for q in prev) and is_int_(idx):
                    return Rat.atom(Fn("getitem", (a_.args[0], tuple(prev) + (idx,))))
            return Rat.atom(Fn("getitem", (seq, idx)))
        if isinstance(seq, (list, tuple)):
            return unk("elem", tuple(seq) if len(seq) < 6 else len(seq), idx)
        return unk("elem", repr(seq), idx)

    def st_While(self, st, s, ctx):
        names, attrs = self._assigned_names(st.body)
        for n in names:
            s.env[n] = unk("while", n, st.lineno)
        # one symbolic pass over the body for the logs (stores, calls, assignments seen by the rules); the state after
        # the loop keeps every assigned name unknown - nothing computed in the pass is used as a value
        try:
            probe = s.fork("while %s" % norm_text(st.test))
            ctx.loop_depth += 1
            mark = (len(self.store_log), len(self.assign_log))
            self.exec_block(st.body, [probe], ctx)
            self.while_log.append((ctx.finfo.fq, st.lineno, mark, (len(self.store_log), len(self.assign_log))))
        except AnalysisError:
            raise
        except Exception:
            pass
        finally:
            ctx.loop_depth -= 1
        for n in names:
            s.env[n] = unk("while", n, st.lineno)
        # a loop without break is left exactly when its test is false: the test, read with the values the loop leaves behind
        if not st.orelse and not any(isinstance(n_, ast.Break) for b_ in st.body for n_ in ast.walk(b_)):
            try:
                if not hasattr(self, "while_exit_log"):
                    self.while_exit_log = []
                self.while_exit_log.append((ctx.finfo.fq, st.lineno, self.ev(st.test, s.env, ctx)))
            except AnalysisError:
                raise
            except Exception:
                pass
        return [s]

    # ----------------------------------------------------------- expressions
    def truth(self, test, env, ctx):
        """True / False when decidable from constants, else None."""
        if isinstance(test, ast.BoolOp):
            vals = [self.truth(v, env, ctx) for v in test.values]
            if isinstance(test.op, ast.And):
                if any(v is False for v in vals):
                    return False
                if all(v is True for v in vals):
                    return True
                return None
            if any(v is True for v in vals):
                return True
            if all(v is False for v in vals):
                return False
            return None
        if isinstance(test, ast.UnaryOp) and isinstance(test.op, ast.Not):
            t = self.truth(test.operand, env, ctx)
            return None if t is None else (not t)
        if isinstance(test, ast.Compare) and len(test.ops) == 1:
            l = self.ev(test.left, env, ctx)
            r = self.ev(test.comparators[0], env, ctx)
            op = test.ops[0]
            if isinstance(op, (ast.Is, ast.IsNot)):
                if l is None and r is None:
                    res = True
                elif (l is None) != (r is None):
                    if isinstance(l, Rat) and has_unknown(l) or isinstance(r, Rat) and has_unknown(r):
                        return None
                    res = False
                elif isinstance(l, bool) and isinstance(r, bool):
                    res = l is r
                else:
                    return None
                return res if isinstance(op, ast.Is) else not res
            if isinstance(op, (ast.Eq, ast.NotEq)):
                # the dtype of a real/imaginary part, modulus or phase is never a complex type
                for x, y in ((l, r), (r, l)):
                    if isinstance(y, ExtRef) and y.dotted.split(".")[-1] in ("complex64", "complex128", "complex256", "complex_", "complex",
                                                                              "cdouble", "csingle", "clongdouble", "complexfloating") \
                            and isinstance(x, Rat) and isinstance(x.single_atom(), Fn) and x.single_atom().name == "dtype" \
                            and len(x.single_atom().args) == 1 and _known_real(x.single_atom().args[0]):
                        return isinstance(op, ast.NotEq)
            lc, rc = pyconst(l), pyconst(r)
            if lc is None or rc is None:
                if isinstance(op, (ast.In, ast.NotIn)):
                    return None
                if (l is None or r is None) and isinstance(op, (ast.Eq, ast.NotEq)):
                    other = r if l is None else l
                    if other is None:
                        return isinstance(op, ast.Eq)
                    return None
                return None
            if isinstance(lc, (Rat, Obj, FuncRef, ExtRef, tuple, list, dict, ShapeOf)) or \
                    isinstance(rc, (Rat, Obj, FuncRef, ExtRef, tuple, list, dict, ShapeOf)):
                if isinstance(op, (ast.In, ast.NotIn)) and isinstance(rc, dict) and not isinstance(lc, Rat):
                    res = lc in rc
                    return res if isinstance(op, ast.In) else not res
                if isinstance(op, (ast.In, ast.NotIn)) and isinstance(rc, (tuple, list)) and isinstance(lc, (str, int, float, bool)):
                    # membership of a literal in a tuple / list of literals
                    items = [pyconst(x) for x in rc]
                    if all(isinstance(x, (str, int, float, bool)) for x in items):
                        res = lc in items
                        return res if isinstance(op, ast.In) else not res
                return None
            try:
                if isinstance(op, ast.Eq):
                    return lc == rc
                if isinstance(op, ast.NotEq):
                    return lc != rc
                if isinstance(op, ast.Lt):
                    return lc < rc
                if isinstance(op, ast.LtE):
                    return lc <= rc
                if isinstance(op, ast.Gt):
                    return lc > rc
                if isinstance(op, ast.GtE):
                    return lc >= rc
            except TypeError:
                return None
            return None
        v = self.ev(test, env, ctx)
        if v is None:
            return False
        if isinstance(v, bool):
            return v
        if isinstance(v, (ExtRef, FuncRef, ModRef)):
            return True
        if isinstance(v, Rat) and isinstance(v.single_atom(), Fn) and v.single_atom().name in ("iscomplexobj", "isrealobj") \
                and len(v.single_atom().args) == 1 and _known_real(v.single_atom().args[0]):
            return v.single_atom().name == "isrealobj"
        c = pyconst(v)
        if isinstance(c, (int, float)) and not isinstance(v, Rat):
            return bool(c)
        if isinstance(v, Rat) and v.is_const():
            return bool(v.const_value())
        if isinstance(v, (str, tuple, list, dict)):
            return bool(v)
        return None

    def ev(self, e, env, ctx, stmt_call=False):
        m = getattr(self, "ev_" + type(e).__name__, None)
        if m is None:
            return unk("expr", type(e).__name__)
        if isinstance(e, ast.Call):
            return m(e, env, ctx, stmt_call)
        return m(e, env, ctx)

    def ev_Constant(self, e, env, ctx):
        v = e.value
        if isinstance(v, bool) or v is None or isinstance(v, (str, bytes)) or v is Ellipsis:
            return v
        return Rat.const(v)

    def ev_Name(self, e, env, ctx):
        if e.id in env:
            return env[e.id]
        if ctx.locals is not None and e.id in ctx.locals:
            return unk("unbound_local", e.id)
        b = self.ix.namespace(ctx.finfo.module.name).get(e.id)
        if b is not None:
            return self.binding_value(b, e.id)
        if e.id == "Ellipsis":
            return Ellipsis
        if e.id in BUILTINS:
            return ExtRef("builtins." + e.id)
        if e.id in ("True", "False", "None"):
            return {"True": True, "False": False, "None": None}[e.id]
        return unk("undefined_name", e.id)

    def binding_value(self, b, name):
        if b.kind == "func":
            return FuncRef(b.target)
        if b.kind == "class":
            return ClsRef(b.target)
        if b.kind == "module":
            return ModRef(b.target)
        if b.kind == "ext":
            return self.ext_value(b.target)
        if b.kind == "value":
            node = b.target
            if isinstance(node, ast.Constant) and isinstance(node.value, (int, float, complex, str)):
                return self.ev_Constant(node, {}, None)
            lit = _literal_value(node)
            if lit is not None:
                return lit
            if isinstance(node, ast.Dict):
                try:
                    return ModTable(b.origin + "." + name, node, self)
                except Exception:
                    pass
            folded = self._module_constant(b, name, node)
            if folded is not None:
                return folded
            return Rat.sym("%s.%s" % (b.origin, name), ("global",))
        return unk("binding", name)

    def _module_constant(self, b, name, node):
        """a module-level name bound to a constant expression (`_TWO_PI = 2 * math.pi`, `_EXPONENT = -5. / 3.`,
        `_AXES = (-1, -2)`, `_G = gamma(5. / 6)`): the value of the expression, evaluated in the defining module.  Only closed
        terms are accepted (no symbols, nothing unrecognised); anything else stays the opaque global it was."""
        key = (b.origin, name)
        cache = self.__dict__.setdefault("_modconst_cache", {})
        if key in cache:
            return cache[key]
        cache[key] = None          # recursion guard
        if not isinstance(node, (ast.BinOp, ast.UnaryOp, ast.Call, ast.Tuple, ast.List, ast.Name, ast.Attribute, ast.Subscript)):
            return None
        if any(isinstance(n, (ast.Lambda, ast.ListComp, ast.GeneratorExp, ast.DictComp, ast.SetComp, ast.Await, ast.Yield)) for n in ast.walk(node)):
            return None
        try:
            mod = self.ix.module(b.origin)
        except Exception:
            return None

        class _F(object):
            pass
        fi = _F()
        fi.module, fi.fq, fi.name, fi.params, fi.kwonly, fi.cls = mod, b.origin + ":<module>", "<module>", [], [], None
        try:
            v = self.ev(node, {}, Ctx(fi, None, 0))
        except AnalysisError:
            return None
        except Exception:
            return None

        def closed(x):
            if isinstance(x, Rat):
                return not has_unknown(x) and not any(isinstance(a, Sym) for a in x.atoms())
            if isinstance(x, (tuple, list)) and not _is_slice(x):
                return all(closed(y) for y in x)
            return isinstance(x, (str, bool, int, float)) or x is None
        if v is None or not closed(v):
            return None
        cache[key] = v
        return v

    def ext_value(self, dotted):
        if dotted == "numpy.newaxis":
            return None
        if dotted in EXT_CONST:
            return Rat.const(EXT_CONST[dotted])
        return ExtRef(dotted)

    def ev_Attribute(self, e, env, ctx):
        o = self.ev(e.value, env, ctx)
        a = e.attr
        if isinstance(o, Obj):
            if a in o.attrs:
                return o.attrs[a]
            m = o.cls.find_method(a)
            if m is not None:
                if any(norm_text(d) == "property" for d in m.node.decorator_list):
                    return self.call_repo(m, [], {}, ctx, self_obj=o)
                return BoundMethod(o, a)
            return Rat.sym("self." + a, ("attr",))
        if isinstance(o, ExtRef):
            return self.ext_value(o.dotted + "." + a)
        if isinstance(o, ModRef):
            ns = self.ix.namespace(o.name)
            if a in ns:
                return self.binding_value(ns[a], a)
            sub = o.name + "." + a
            if sub in self.ix.modules:
                return ModRef(sub)
            return unk("modattr", o.name, a)
        if isinstance(o, Rat):
            if a == "T":
                return mk_T(o)
            if a == "real":
                return o if o.is_real() else Rat.atom(Fn("real", (o,)))
            if a == "imag":
                return Rat.atom(Fn("imag", (o,)))
            if a == "shape":
                return ShapeOf(o)
            if a == "ndim":
                car = sorted(set(x.name for x in o.atoms() if isinstance(x, Sym) and "array" in x.flags))
                if len(car) == 1:
                    return Rat.sym("ndim(%s)" % car[0], ("int",))       # same normal form as len(x.shape)
            if a == "flat":
                return Rat.atom(Fn("flatten", (o,)))        # iterating / indexing x.flat reads the elements of x.ravel()
            if a in ("dtype", "size", "ndim"):
                return Rat.atom(Fn(a, (o,)))
            at_ = o.single_atom()
            if isinstance(at_, Fn) and at_.name.endswith("scipy.optimize.minimize") and a in ("x", "fun", "success", "nit"):
                return Rat.atom(Fn("getitem", (o, a)))          # OptimizeResult: res.x is res['x']
            return BoundMethod(o, a)
        if _is_slice(o) and a in ("start", "stop", "step"):
            return o[{"start": 1, "stop": 2, "step": 3}[a]]
        if isinstance(o, (list, tuple, dict, str, ShapeOf, ModTable)):
            return BoundMethod(o, a)
        return unk("attr", a)

    def known_rank(self, v, ctx):
        """rank of v when the path has decided `v.ndim == c` (or len(v.shape) == c), else None"""
        facts = getattr(ctx, "facts_now", None) if ctx is not None else None
        if not facts or not isinstance(v, Rat):
            return None
        car = sorted(set(x.name for x in v.atoms() if isinstance(x, Sym) and "array" in x.flags))
        nd = Rat.sym("ndim(%s)" % car[0], ("int",)) if len(car) == 1 else Rat.atom(Fn("ndim", (v,)))
        for c in range(0, 7):
            for l_, r_ in ((nd, Rat.const(c)), (Rat.const(c), nd)):
                if facts.get(vkey(mk_cmp("==", l_, r_))) is True:
                    return c
        return None

    def shape_elem(self, v, i, rank=None):
        carriers = sorted(set(a.name for a in v.atoms() if isinstance(a, Sym) and "array" in a.flags)) \
            if isinstance(v, Rat) else []
        name = carriers[0] if len(carriers) == 1 else None
        if name is None:
            sa = v.single_atom() if isinstance(v, Rat) else None
            if isinstance(sa, Sym):
                name = sa.name
        if name is None and isinstance(v, Rat):
            from .plf import find_atoms
            sizes = set()
            for d in find_atoms(v, lambda a: isinstance(a, Fn) and a.name == "draw"):
                sz = d.args[4]
                if isinstance(sz, tuple) and isinstance(i, int) and -len(sz) <= i < len(sz):
                    sizes.add(vkey(sz[i]))
                    val = sz[i]
            if len(sizes) == 1:
                return val
        if name is None:
            return Rat.atom(Fn("shape", (v, i)))
        if self.square:
            return Rat.sym("N[%s]" % name, ("int", "size"))
        return Rat.sym("shape(%s)[%s]" % (name, i), ("int", "size"))

    def ev_Subscript(self, e, env, ctx):
        o = self.ev(e.value, env, ctx)
        idx = self.ev_index(e.slice, env, ctx)
        if isinstance(o, Rat) and isinstance(idx, tuple) and not _is_slice(idx) and sum(1 for x in idx if x is Ellipsis) == 1 \
                and not any(x is None for x in idx):
            # `...` stands for the full slices of the axes not named: written out when the rank of the operand is known
            shp_ = static_shape(o)
            if shp_ is not None and len(shp_) >= len(idx) - 1:
                k_ = idx.index(Ellipsis)
                fill = (("slice", Rat.const(0), None, None),) * (len(shp_) - (len(idx) - 1))
                idx = idx[:k_] + fill + idx[k_ + 1:]
                if len(idx) == 1:
                    idx = idx[0]
        if isinstance(o, ShapeOf):
            c = pyconst(idx) if isinstance(idx, Rat) else None
            if isinstance(c, int):
                return self.shape_elem(o.v, c)
            if isinstance(idx, tuple) and idx and idx[0] == "slice":
                lo, hi, stp = [None if x is None else pyconst(x) for x in idx[1:]]
                # the trailing k extents: shape[-k:]  ->  (shape[-k], ..., shape[-1])
                if isinstance(lo, int) and lo < 0 and hi is None and stp in (None, 1):
                    return tuple(self.shape_elem(o.v, i) for i in range(lo, 0))
                # the leading k extents: shape[:k]  ->  (shape[0], ..., shape[k-1])  (batch axes first, for a stack)
                if (lo is None or lo == 0) and isinstance(hi, int) and hi > 0 and stp in (None, 1):
                    return tuple(self.shape_elem(o.v, i) for i in range(0, hi))
                rk_ = self.known_rank(o.v, ctx)
                if rk_ is not None and stp in (None, 1) and (lo is None or isinstance(lo, int)) and (hi is None or isinstance(hi, int)):
                    # the rank is decided on this path: the slice of the shape is a tuple of named extents
                    rng_ = range(rk_)[slice(lo, hi)]
                    return tuple(self.shape_elem(o.v, i - rk_, rk_) for i in rng_)
                if isinstance(lo, int) and lo > 0 and hi is None and stp in (None, 1):
                    return ShapeTail(o.v, lo)
            return Rat.atom(Fn("shape", (o.v, idx)))
        if isinstance(o, ShapeTail):
            c = pyconst(idx) if isinstance(idx, Rat) else None
            if isinstance(c, int):
                return self.shape_elem(o.v, c + o.skip if c >= 0 else c)
            return unk("shape_tail_index", idx)
        if isinstance(o, SeqList) and isinstance(idx, Rat):
            got = self.seq_read(o, idx)
            if got is not None:
                return got
        if isinstance(o, (tuple, list)):
            c = pyconst(idx) if isinstance(idx, Rat) else None
            if isinstance(c, int) and -len(o) <= c < len(o) and not (isinstance(o, SeqList) and o.seq() is not None):
                return o[c]
            if isinstance(idx, tuple) and idx and idx[0] == "slice":
                lo, hi, stp = [None if x is None else pyconst(x) for x in idx[1:]]
                if all(x is None or isinstance(x, int) for x in (lo, hi, stp)):
                    return type(o)(o[slice(lo, hi, stp)])
            return self.elem(o, idx)
        if isinstance(o, ModTable):
            return o.getitem(idx)
        if isinstance(o, dict):
            k = pyconst(idx)
            if not isinstance(k, Rat) and k in o:
                return o[k]
            return unk("dictitem", repr(sorted(map(str, o))), idx)
        if isinstance(o, Rat) and isinstance(idx, tuple) and len(idx) == 2 and _all_1d(o):
            # v[None, :] / v[:, None] of a vector: the vector replicated along the other axis
            full_ = lambda x: isinstance(x, tuple) and len(x) == 4 and x[0] == "slice" and x[2] is None and x[3] is None and \
                (x[1] is None or (isinstance(x[1], Rat) and x[1].is_zero()))
            if idx[0] is None and full_(idx[1]):
                return mk_grid(o, 1)
            if idx[1] is None and full_(idx[0]):
                return mk_grid(o, 0)
        if isinstance(o, Rat):
            # [f(c) for c in range(lo, hi, step)][k]  is  f(lo + k*step)
            la = o.single_atom()
            if isinstance(la, Fn) and la.name == "listcomp" and isinstance(idx, Rat) and isinstance(la.args[2], tuple) and \
                    len(la.args[2]) == 3 and la.args[2][0] != "enumerate" and all(isinstance(x, Rat) for x in la.args[2]) and \
                    isinstance(la.args[0], Rat):
                lo_, hi_, st_ = la.args[2]
                var = Sym(la.args[1], ("int", "loopvar"))
                at = lo_ + idx * st_
                return la.args[0].subst(lambda a: at if a == var else None)
            return self._row_of_transpose(o, idx) or mk_getitem(o, idx)
        return unk("subscript", repr(o))

    def seq_read(self, seq, idx):
        """seq[rank]: the item of a loop-built sequence at the position numbered by a rank counter of an identical nest"""
        sq = seq.seq()
        ra = idx.single_atom()
        if sq is None or not (isinstance(ra, Fn) and ra.name == "rank"):
            return None
        start, gens = ra.args
        if not (isinstance(start, Rat) and start.is_zero()):
            return unk("seq_read_offset", _vk(start))
        return self.align_seq(sq[0], sq[1], tuple(gens))

    def align_seq(self, item, prov, gens):
        """item of a sequence produced by nest `prov`, as seen from an iteration of nest `gens`: defined when the two nests
        enumerate the same index space in the same order (same ranges after renaming the loop variables positionally)"""
        if len(prov) != len(gens):
            return unk("seq_nest_depth", len(prov), len(gens))
        ren = {}
        for (pt, pk), (gt, gk) in zip(prov, gens):
            pk2 = _rename_key(pk, ren)
            if vkey(pk2) != vkey(gk):
                return unk("seq_nest_range", repr(pk2)[:60], repr(gk)[:60])
            ren[pt] = gt
            ren[pt + "#"] = gt + "#"
        return _rename_val(item, ren)

    def ev_index(self, sl, env, ctx):
        if isinstance(sl, ast.Slice):
            lo = self.ev(sl.lower, env, ctx) if sl.lower is not None else None
            hi = self.ev(sl.upper, env, ctx) if sl.upper is not None else None
            stp = self.ev(sl.step, env, ctx) if sl.step is not None else None
            # canonical spelling: x[:k] == x[0:k], x[a:b] == x[a:b:1] (positive steps)
            if stp is None or (isinstance(stp, Rat) and stp.real_const() == 1):
                stp = None
                if lo is None:
                    lo = Rat.const(0)
            return ("slice", lo, hi, stp)
        if isinstance(sl, ast.Tuple):
            return tuple(self.ev_index(x, env, ctx) for x in sl.elts)
        return self.ev(sl, env, ctx)

    def ev_Tuple(self, e, env, ctx):
        return tuple(self.ev(x, env, ctx) for x in e.elts)

    def ev_List(self, e, env, ctx):
        return [self.ev(x, env, ctx) for x in e.elts]

    def ev_Dict(self, e, env, ctx):
        out = {}
        for k, v in zip(e.keys, e.values):
            kk = pyconst(self.ev(k, env, ctx)) if k is not None else None
            try:
                out[kk] = self.ev(v, env, ctx)
            except TypeError:
                return unk("dict")
        return out

    def ev_JoinedStr(self, e, env, ctx):
        return "<fstring>"

    def ev_IfExp(self, e, env, ctx):
        t = self.truth(e.test, env, ctx)
        if t is True:
            return self.ev(e.body, env, ctx)
        if t is False:
            return self.ev(e.orelse, env, ctx)
        return Rat.atom(Fn("where3", (self.ev(e.test, env, ctx), self.ev(e.body, env, ctx),
                                      self.ev(e.orelse, env, ctx))))

    def ev_ListComp(self, e, env, ctx):
        depth0 = getattr(self, "_comp_depth", 0)
        if len(e.generators) == 1 and not e.generators[0].ifs:
            g = e.generators[0]
            it = self.ev(g.iter, env, ctx)
            if isinstance(it, GenVal):
                it = it.remaining() if not it.done else unk("exhausted_generator")
            if isinstance(it, (list, tuple)) and not _is_slice(it) and not (isinstance(it, SeqList) and it.seq() is not None) and \
                    1 <= len(it) <= 16 and not (isinstance(it[0], str) and it[0] in ("enumerate", "zip", "slice")) and \
                    all(isinstance(x, (Rat, tuple, list)) for x in it):
                # a comprehension over a literal sequence is the list of its items' values
                out_ = []
                for item in it:
                    st_ = State(dict(env))
                    self.assign(g.target, item, st_, ctx, e)
                    out_.append(self.ev(e.elt, st_.env, ctx))
                return out_
            if not (isinstance(it, SeqList) and it.seq() is not None):
                env2 = dict(env)
                # canonical (alpha-renamed) comprehension variable: depth of nesting, not the source name
                tag = "c%d@c" % depth0
                st = State(env2)
                over = _range_of_listcomp(it, tag)
                if over is not None:
                    # iterating over [g(c) for c in range(...)] is iterating over the range with the item g(c)
                    it, tv_ = over
                    self.assign(g.target, tv_, st, ctx, e)
                else:
                    self.assign(g.target, self.loop_target_value(g.target, it, tag), st, ctx, e)
                self._comp_depth = depth0 + 1
                try:
                    elt = self.ev(e.elt, st.env, ctx)
                finally:
                    self._comp_depth = depth0
                return Rat.atom(Fn("listcomp", (elt, tag, _itkey(it))))
        if any(g.ifs for g in e.generators):
            return unk("listcomp_filter")
        # several generators, or a comprehension over a sequence built in loops: the result is such a sequence itself
        st = State(dict(env))
        prov = []
        d = depth0
        try:
            for g in e.generators:
                it = self.ev(g.iter, st.env, ctx)
                if isinstance(it, SeqList) and it.seq() is not None:
                    item, gens = it.seq()
                    # fresh comprehension variables for the nest that produced the sequence
                    ren = {}
                    for (pt, pk) in gens:
                        nt = "c%d@c" % d
                        d += 1
                        prov.append((nt, _rename_key(pk, ren)))
                        ren[pt] = nt
                        ren[pt + "#"] = nt + "#"
                    self.assign(g.target, _rename_val(item, ren), st, ctx, e)
                elif isinstance(it, RangeVal):
                    tag = "c%d@c" % d
                    d += 1
                    prov.append((tag, _itkey(it)))
                    self.assign(g.target, self.loop_target_value(g.target, it, tag), st, ctx, e)
                else:
                    return unk("listcomp")
                self._comp_depth = d
            elt = self.ev(e.elt, st.env, ctx)
        finally:
            self._comp_depth = depth0
        return SeqList([elt], [tuple(prov)])

    ev_GeneratorExp = ev_ListComp

    def ev_GeneratorExp(self, e, env, ctx):
        lc = ast.ListComp(elt=e.elt, generators=e.generators)
        ast.copy_location(lc, e)
        v = self.ev_ListComp(lc, env, ctx)
        la = v.single_atom() if isinstance(v, Rat) else None
        if isinstance(la, Fn) and la.name == "listcomp" and isinstance(la.args[0], Rat) and isinstance(la.args[2], tuple) and len(la.args[2]) == 3 \
                and all(isinstance(x, Rat) for x in la.args[2]):
            return GenVal(v)
        return v        # consumed once, in order: the list of its items

    def ev_Lambda(self, e, env, ctx):
        a = e.args
        if a.vararg or a.kwarg or a.kwonlyargs or a.defaults or a.posonlyargs or any(isinstance(n_, (ast.Lambda, ast.NamedExpr, ast.Yield, ast.Await))
                                                                                     for n_ in ast.walk(e.body)):
            return unk("lambda")
        return LamRef(e, env)

    def ev_UnaryOp(self, e, env, ctx):
        v = self.ev(e.operand, env, ctx)
        if isinstance(e.op, ast.USub):
            return -as_rat(v) if isinstance(v, (Rat, int, float)) else unk("neg")
        if isinstance(e.op, ast.UAdd):
            return v
        if isinstance(e.op, ast.Not):
            t = self.truth(e.operand, env, ctx)
            if t is not None:
                return not t
            return Rat.atom(Fn("not", (v,)))
        return unk("unary")

    def ev_BinOp(self, e, env, ctx):
        l = self.ev(e.left, env, ctx)
        r = self.ev(e.right, env, ctx)
        return self.binop(e.op, l, r)

    def binop(self, op, l, r):
        if isinstance(l, bool):
            l = Rat.const(int(l))
        if isinstance(r, bool):
            r = Rat.const(int(r))
        if isinstance(op, ast.Mult) and isinstance(l, list) and isinstance(r, Rat):
            if all(isinstance(x, Rat) and x.is_zero() for x in l):
                return Rat.const(0)         # a list of zeros of any length acts as the zero array
            if len(l) == 1 and not isinstance(l[0], (list, dict)):
                # [item] * n is [item for _ in range(n)]
                return Rat.atom(Fn("listcomp", (l[0], "c%d@c" % getattr(self, "_comp_depth", 0), (Rat.const(0), r, Rat.const(1)))))
            return Rat.atom(Fn("listrep", (tuple(l), r)))
        if isinstance(op, ast.Add) and isinstance(l, (list, tuple)) and isinstance(r, type(l)):
            return l + r
        if isinstance(l, str) or isinstance(r, str):
            return "<str>"
        if not isinstance(l, Rat) or not isinstance(r, Rat):
            return unk("binop", type(op).__name__, _vk(l), _vk(r))
        try:
            if isinstance(op, (ast.Add, ast.Sub)) and self.drop_eps:
                for small, other in ((l, r), (r, l)):
                    c = small.const_value()
                    if c is not None and 0 < abs(c) <= 1e-9 and not other.is_const():
                        self.eps_guards.append(complex(c).real)
                        if small is r:
                            return l
                        return r if isinstance(op, ast.Add) else -r
            if isinstance(op, ast.Add):
                return l + r
            if isinstance(op, ast.Sub):
                return l - r
            if isinstance(op, ast.Mult):
                return l * r
            if isinstance(op, ast.Div):
                return l / r
            if isinstance(op, ast.Pow):
                return rpow(l, r)
            if isinstance(op, ast.MatMult):
                return Rat.atom(Fn("dot", (l, r)))
            if isinstance(op, ast.FloorDiv):
                lc, rc = pyconst(l), pyconst(r)
                if isinstance(lc, (int, float)) and isinstance(rc, (int, float)) and rc != 0:
                    return Rat.const(lc // rc)
                g_ = _flat_index_grid(l, r, 0)
                if g_ is not None:
                    return g_
                return Rat.atom(Fn("floordiv", (l, r)))
            if isinstance(op, ast.Mod):
                lc, rc = pyconst(l), pyconst(r)
                if isinstance(lc, (int, float)) and isinstance(rc, (int, float)) and rc != 0:
                    return Rat.const(lc % rc)
                g_ = _flat_index_grid(l, r, 1)
                if g_ is not None:
                    return g_
                return Rat.atom(Fn("mod", (l, r)))
        except ZeroDivisionError:
            return unk("zerodiv")
        if isinstance(op, (ast.BitAnd, ast.BitOr, ast.BitXor)):
            # commutative: one normal form for a & b and b & a
            try:
                l, r = sorted((l, r), key=lambda x: repr(vkey(x)))
            except Exception:
                pass
        return Rat.atom(Fn("op_" + type(op).__name__, (l, r)))

    def ev_BoolOp(self, e, env, ctx):
        t = self.truth(e, env, ctx)
        if t is not None:
            return t
        return Rat.atom(Fn("boolop_" + type(e.op).__name__, tuple(self.ev(v, env, ctx) for v in e.values)))

    def ev_Compare(self, e, env, ctx):
        t = self.truth(e, env, ctx)
        if t is not None:
            return t
        if len(e.ops) != 1:
            return unk("compare_chain")
        l = self.ev(e.left, env, ctx)
        r = self.ev(e.comparators[0], env, ctx)
        return mk_cmp(CMP_NAMES.get(type(e.ops[0]).__name__, "?"), l, r)

    # ---------------------------------------------------------------- calls
    def ev_Call(self, e, env, ctx, stmt_call=False):
        f = self.ev(e.func, env, ctx)
        args = []
        for a in e.args:
            if isinstance(a, ast.Starred):
                v = self.ev(a.value, env, ctx)
                if isinstance(v, (tuple, list)):
                    args.extend(v)
                else:
                    args.append(unk("starargs", _vk(v)))
            else:
                args.append(self.ev(a, env, ctx))
        kwargs = {}
        for k in e.keywords:
            if k.arg is None:
                v = self.ev(k.value, env, ctx)
                if isinstance(v, dict):
                    kwargs.update(v)
            else:
                kwargs[k.arg] = self.ev(k.value, env, ctx)
        self.call_log.append((ctx.finfo.fq, norm_text(e.func), args, kwargs, e.lineno,
                              getattr(getattr(ctx, "state_now", None), "cond_nf", ())))
        if isinstance(f, LamRef):
            params = [x.arg for x in f.node.args.args]
            if kwargs or len(args) != len(params):
                return unk("lambda_call")
            env2 = dict(f.env)
            for k_ in ("__alias__", "__views__", "__ranks__", "__arrays__"):
                if k_ in env:
                    env2[k_] = env[k_]
            env2.update(zip(params, args))
            return self.ev(f.node.body, env2, ctx)
        if isinstance(f, FuncRef):
            return self.call_repo(f.finfo, args, kwargs, ctx, call_node=e, env=env)
        if isinstance(f, BoundMethod):
            if isinstance(f.recv, Obj):
                m = f.recv.cls.find_method(f.name)
                return self.call_repo(m, args, kwargs, ctx, self_obj=f.recv, call_node=e, env=env)
            return self.call_method(f.recv, f.name, args, kwargs, e, env, ctx)
        if isinstance(f, ExtRef):
            return self.call_ext(f.dotted, args, kwargs, e, env, ctx)
        if isinstance(f, ClsRef):
            return unk("instantiate", f.cinfo.name)
        if isinstance(f, Rat):
            # calling a value (e.g. user FFT object, spline object)
            return Rat.atom(Fn("callobj", (f,) + tuple(args)))
        return unk("call", norm_text(e.func))

    def call_repo(self, finfo, args, kwargs, ctx, self_obj=None, call_node=None, env=None):
        if finfo.fq in self.opaque or ctx.depth >= self.inline_depth:
            # canonical positional form by signature
            full = self.bind_args(finfo, args, kwargs, ctx)
            return Rat.atom(Fn("call:" + finfo.fq, tuple(full)))
        if any(norm_text(d).split("(")[0].split(".")[-1] in ("jit", "njit") for d in finfo.node.decorator_list):
            pass    # numba kernels are plain python for the analysis
        sub = Interp.__new__(Interp)
        sub.__dict__ = self.__dict__        # share logs / settings
        prev = getattr(self, "_inherit_facts", None)
        self._inherit_facts = dict(getattr(ctx, "facts_now", None) or {})
        prev_ld = getattr(self, "_inherit_loop_depth", 0)
        self._inherit_loop_depth = ctx.loop_depth
        try:
            states = sub.run(finfo, args, kwargs, self_obj, ctx.depth + 1)
        finally:
            self._inherit_facts = prev
            self._inherit_loop_depth = prev_ld
        cctx = sub._last_ctx
        # by-reference effects on array arguments (out-parameters)
        if call_node is not None and env is not None and cctx.mutated:
            params = [p for p in finfo.params if p != "self"]
            for i, a in enumerate(call_node.args):
                if i < len(params) and params[i] in cctx.mutated and isinstance(a, (ast.Name, ast.Attribute)):
                    st = State(env)
                    self.rebind(a, cctx.mutated[params[i]], st, ctx)
        vals, vconds = [], []
        for s in states:
            v = None if s.ret is NORET else s.ret
            hit = [i for i, x in enumerate(vals) if vkey(v) == vkey(x)]
            if not hit:
                vals.append(v)
                vconds.append([s.cond_nf])
            else:
                vconds[hit[0]].append(s.cond_nf)
        if not vals:
            return unk("noreturn", finfo.fq)
        if len(vals) == 1:
            return vals[0]

        def mk(alts):
            # the alternatives of an inlined callee, each with the evaluated conditions of its paths: resolved against the
            # caller's own branch decisions when the caller's path ends (resolve_paths)
            at = Fn("paths", tuple(alts))
            self.paths_conds[at.key()] = [list(c) for c in vconds]
            return Rat.atom(at)
        if all(isinstance(v, Rat) for v in vals):
            return mk(vals)
        if all(isinstance(v, tuple) and len(v) == len(vals[0]) for v in vals):
            return tuple(mk([v[i] for v in vals]) if
                         len(set(vkey(v[i]) for v in vals)) > 1 else vals[0][i]
                         for i in range(len(vals[0])))
        return unk("paths", finfo.fq)

    def bind_args(self, finfo, args, kwargs, ctx):
        params = [p for p in finfo.params if p != "self" or finfo.cls is None]
        out = []
        for i, p in enumerate(params):
            if i < len(args):
                out.append(args[i])
            elif p in kwargs:
                out.append(kwargs[p])
            elif p in finfo.defaults:
                out.append(self.ev(finfo.defaults[p], {}, ctx))
            else:
                out.append(unk("missing_arg", p))
        return out

    def call_method(self, recv, name, args, kwargs, e, env, ctx):
        if isinstance(recv, list):
            if name == "append" and args:
                recv.append(args[0])
                return None
            return unk("listmethod", name)
        if isinstance(recv, str):
            return "<str>"
        if isinstance(recv, ShapeOf):
            return unk("shapemethod", name)
        if isinstance(recv, ModTable):
            return unk("tablemethod", name)
        if name in ("map", "starmap") and len(args) >= 2 and isinstance(args[0], FuncRef) and isinstance(args[1], list) \
                and not isinstance(recv, (list, str)):
            # an order-preserving map over a list built in loops: the list of the results, produced by the same nest
            src = args[1]
            outs_ = []
            for item in src:
                call_args = list(item) if (name == "starmap" and isinstance(item, (tuple, list))) else [item]
                outs_.append(self.call_repo(args[0].finfo, call_args, {}, ctx))
            return SeqList(outs_, src.prov if isinstance(src, SeqList) else None)
        if name == "reshape" and isinstance(recv, (list, tuple)) and not _is_slice(recv) and recv and all(isinstance(x_, Rat) for x_ in recv) \
                and len(args) == 2 and isinstance(args[0], Rat) and args[0].real_const() == len(recv) and not kwargs:
            # a stack of k arrays reshaped to (k, everything else): the k arrays, each flattened
            return [Rat.atom(Fn("flatten", (x_,))) for x_ in recv]
        if not isinstance(recv, Rat):
            return unk("method", name)
        x = recv
        ax = args[0] if args else kwargs.get("axis")
        if name in ("sum", "mean", "max", "min", "std", "var", "prod", "argmax", "argmin", "all", "any"):
            return mk_reduce(name, x, _axis(ax), getattr(ctx, "loop_depth", None))
        if name == "dot":
            return Rat.atom(Fn("dot", (x, args[0])))
        if name == "diagonal" and not args and not kwargs:
            return Rat.atom(Fn("diagonal", (x,)))
        if name in ("copy",):
            return x
        if name == "astype":
            dt_ = args[0] if args else kwargs.get("dtype")
            dtxt = (dt_.dotted if isinstance(dt_, ExtRef) else dt_ if isinstance(dt_, str) else "").split(".")[-1]
            if dtxt in ("float", "float64", "double", "float_", "longdouble", "float128", "f8", "d", "complex", "complex128", "cdouble"):
                return x            # widening to (at least) double precision keeps every value
            return Rat.atom(Fn("astype", (x, _vk2(dt_))))
        if name in ("conj", "conjugate"):
            return x.conj()
        if name == "flatten" or name == "ravel":
            return Rat.atom(Fn("flatten", (x,)))
        if name == "reshape":
            shp_ = args[0] if len(args) == 1 and isinstance(args[0], (tuple, list)) and not _is_slice(args[0]) else tuple(args)
            if len(shp_) == 1 and isinstance(shp_[0], Rat) and not kwargs:
                return Rat.atom(Fn("flatten", (x,)))          # a reshape to one axis is the row-major list of the elements
            return Rat.atom(Fn("reshape", (x,) + tuple(args)))
        if name == "transpose":
            if not args and not kwargs:
                return mk_T(x)
            return Rat.atom(Fn("T", (x,) + tuple(args)))
        if name == "view":
            return Rat.atom(Fn("view", (x,) + tuple(args)))
        if name == "clip":
            a = list(args) + [kwargs.get("min"), kwargs.get("max")]
            res = Rat.atom(Fn("clip", (x, a[0], a[1])))
            if "out" in kwargs:
                self.store_log.append((ctx.finfo.fq, norm_text(e), "out", res, e.lineno, "out=", norm_text(e)))
            return res
        if name == "all" or name == "any":
            return Rat.atom(Fn(name, (x,)))
        if name in ("bit_length", "is_integer", "conjugate", "item", "tolist"):
            return Rat.atom(Fn("num." + name, (x,) + tuple(_vk(a) for a in args)))
        if name in STR_METHODS:
            return Rat.atom(Fn("str." + name, (x,) + tuple(_vk(a) for a in args)))
        return Rat.atom(Fn("?method_" + name, (x,) + tuple(args)))

    def call_ext(self, dotted, args, kwargs, e, env, ctx):
        # handlers read the routine's name from the call node: when the routine is reached through a local name
        # (f = numpy.cos; f(x)) give them a node that spells the resolved name
        if isinstance(e, ast.Call) and norm_text(e.func).split(".")[-1] != dotted.split(".")[-1]:
            import copy as _copy
            e2 = _copy.copy(e)
            try:
                e2.func = ast.copy_location(ast.parse(dotted, mode="eval").body, e.func)
                for sub_ in ast.walk(e2.func):
                    ast.copy_location(sub_, e.func)
                e = e2
            except SyntaxError:
                pass
        if any(isinstance(a_, GenVal) for a_ in args):
            if dotted == "builtins.next" and len(args) == 1:
                g_ = args[0]
                return g_.next_item() if not g_.done else unk("next_on_exhausted_generator")
            args = [(a_.remaining() if not a_.done else unk("exhausted_generator")) if isinstance(a_, GenVal) else a_ for a_ in args]
        h = EXT_CALLS.get(dotted)
        if h is not None:
            r = h(self, args, kwargs, e, env, ctx)
            if r is not NotImplemented:
                return r
        return Rat.atom(Fn("?ext:" + dotted, tuple(args) + tuple(("kw:" + k, v) for k, v in sorted(kwargs.items()))))


def _rename_val(v, ren):
    if isinstance(v, (tuple, list)):
        return type(v)(_rename_val(x, ren) for x in v) if not isinstance(v, SeqList) else v
    if not isinstance(v, Rat) or not ren:
        return v

    def f(a):
        if isinstance(a, Sym) and a.name in ren and ren[a.name] != a.name:
            return Rat.atom(Sym(ren[a.name], a.flags))
        return None
    return v.subst(f)


def _rename_key(k, ren):
    if isinstance(k, tuple):
        return tuple(_rename_key(x, ren) for x in k)
    return _rename_val(k, ren)


def _safe_equals(a, b):
    try:
        return a.equals(b)
    except Exception:
        return False


def _literal_value(node):
    """module-level NAME = <number> | -<number> | tuple/list of such: the value, else None"""
    if isinstance(node, ast.Constant) and isinstance(node.value, (int, float)) and not isinstance(node.value, bool):
        return Rat.const(node.value)
    if isinstance(node, ast.UnaryOp) and isinstance(node.op, ast.USub) and isinstance(node.operand, ast.Constant) \
            and isinstance(node.operand.value, (int, float)):
        return Rat.const(-node.operand.value)
    if isinstance(node, (ast.Tuple, ast.List)) and node.elts:
        vals = [_literal_value(x) for x in node.elts]
        if all(v is not None for v in vals):
            return tuple(vals)
    return None


def _load(t):
    t2 = ast.parse(norm_text(t), mode="eval").body
    return t2


def _vk(v):
    if isinstance(v, (Rat, tuple, list, str, int, float, type(None))):
        return v if not isinstance(v, list) else tuple(v)
    return repr(v)


def _vk2(v):
    if isinstance(v, ExtRef):
        return v.dotted
    return _vk(v)


def _axis(ax):
    if ax is None:
        return None
    c = pyconst(ax)
    if isinstance(c, (int, tuple)):
        return c
    return ax


def _first_nested_ifexp(e):
    """the first conditional expression inside `e` (evaluation order) that is evaluated exactly once whenever `e` is: not inside
    a lambda, a comprehension, a short-circuit operand or another conditional expression's branches"""
    if isinstance(e, ast.IfExp):
        return e
    if isinstance(e, (ast.Lambda, ast.ListComp, ast.SetComp, ast.DictComp, ast.GeneratorExp, ast.BoolOp)):
        return None
    for c in ast.iter_child_nodes(e):
        if isinstance(c, ast.expr):
            r = _first_nested_ifexp(c)
            if r is not None:
                return r
        elif isinstance(c, ast.keyword):
            r = _first_nested_ifexp(c.value)
            if r is not None:
                return r
    return None


def _replace_node(e, target, repl):
    """copy of expression `e` with the node `target` (by identity) replaced by `repl`; untouched sub-trees are shared"""
    if e is target:
        return repl
    if not isinstance(e, ast.AST):
        return e
    import copy as _copy
    changed = False
    new_fields = {}
    for name, val in ast.iter_fields(e):
        if isinstance(val, list):
            nl = [_replace_node(x, target, repl) for x in val]
            if any(a is not b for a, b in zip(nl, val)):
                changed = True
            new_fields[name] = nl
        elif isinstance(val, ast.AST):
            nv = _replace_node(val, target, repl)
            if nv is not val:
                changed = True
            new_fields[name] = nv
        else:
            new_fields[name] = val
    if not changed:
        return e
    c = _copy.copy(e)
    for name, val in new_fields.items():
        setattr(c, name, val)
    return c


def _itkey(it):
    if isinstance(it, RangeVal):
        return (it.lo, it.hi, it.step)
    if isinstance(it, tuple) and it and it[0] == "enumerate":
        return ("enumerate", _itkey(it[1])) + tuple(it[2:])
    if isinstance(it, tuple) and len(it) == 2 and it[0] == "zip" and isinstance(it[1], tuple):
        # the items are read through getitem(operand, index) in the body; the key only names the index domain.  When every
        # operand has a statically known, constant number of items the domain is that count, whatever arrays supply the items
        ns = [leading_length(x) for x in it[1]]
        if ns and all(n is not None for n in ns) and len(set(ns)) == 1:
            return (Rat.const(0), Rat.const(ns[0]), Rat.const(1))
        return ("zip", tuple(_itkey(x) for x in it[1]))
    return _vk(it)


_GRID_OTHER = {}          # key of a grid(v, axis) atom -> constant length of the other axis (-1 if seen with several)


def _bcast(a, b):
    """broadcast of two partially known shapes (tuples of int | None): an axis of known length > 1 decides (in a program
    that does not raise)"""
    out = []
    for i in range(1, max(len(a), len(b)) + 1):
        x = a[-i] if i <= len(a) else 1
        y = b[-i] if i <= len(b) else 1
        out.append(x if (x is not None and x > 1) else y if (y is not None and y > 1) else 1 if (x == 1 and y == 1) else None)
    return tuple(reversed(out))


def static_shape(v):
    """shape of an array-valued normal form as a tuple of int | None (axis of unknown length), or None when even the rank
    is unknown.  Only constant lengths are reported; this is used to name iteration domains, never as a verdict."""
    if isinstance(v, (int, float, complex)):
        return ()
    if not isinstance(v, Rat):
        return None
    shp = ()
    for a in v.atoms(False):
        s_ = _atom_shape(a)
        if s_ is None:
            return None
        shp = _bcast(shp, s_)
    return shp


def _const_len(x):
    c = x.real_const() if isinstance(x, Rat) else x if isinstance(x, int) else None
    return int(c) if c is not None and c == int(c) and c >= 0 else None


def _atom_shape(a):
    if isinstance(a, PowA):
        return static_shape(a.base)
    if isinstance(a, Sym):
        return () if any(fl in a.flags for fl in ("scalar", "int", "size", "loopvar")) else None
    if not isinstance(a, Fn):
        return None
    if a.name in ("shape", "len", "size"):
        return ()
    if a.name == "draw" and len(a.args) >= 5:
        sz = a.args[4]
        if isinstance(sz, tuple) and not (sz and sz[0] == "slice"):
            return tuple(_const_len(x) for x in sz)
        if sz is None:
            return ()
        return (_const_len(sz),) if isinstance(sz, Rat) else None
    if a.name == "arange" and len(a.args) == 3 and all(isinstance(x, Rat) for x in a.args):
        lo, hi, st = (x.real_const() for x in a.args)
        if None not in (lo, hi, st) and st > 0:
            import math
            return (max(0, int(math.ceil((hi - lo) / st))),)
        return (None,)
    if a.name == "grid" and len(a.args) == 2 and a.args[1] in (0, 1):
        vs = static_shape(a.args[0])
        if vs is None or len(vs) > 1:
            return None
        n = vs[0] if vs else 1
        o_ = _GRID_OTHER.get(a.key())
        o_ = o_ if (o_ is not None and o_ >= 0) else None
        return (n, o_) if a.args[1] == 0 else (o_, n)
    if a.name == "reshape" and len(a.args) >= 2:
        shp = a.args[1] if len(a.args) == 2 and isinstance(a.args[1], tuple) else tuple(a.args[1:])
        out = tuple(_const_len(x) for x in shp)
        return out
    if a.name == "flatten" and len(a.args) == 1:
        vs = static_shape(a.args[0])
        if vs is None or any(x is None for x in vs):
            return (None,)
        n = 1
        for x in vs:
            n *= x
        return (n,)
    if a.name == "setitem" and len(a.args) == 3:
        return static_shape(a.args[0])
    if a.name == "getitem" and len(a.args) == 2 and isinstance(a.args[0], Rat):
        bs = static_shape(a.args[0])
        ix_ = a.args[1] if isinstance(a.args[1], tuple) and not _is_slice(a.args[1]) else (a.args[1],)
        if bs is not None and all(isinstance(q, Rat) and all(isinstance(t, Sym) and ("loopvar" in t.flags or "int" in t.flags) for t in q.atoms())
                                  for q in ix_) and len(ix_) <= len(bs):
            return bs[len(ix_):]            # integer indices on the leading axes select an item
        return None
    if a.name in ("sort", "cumsum", "clip", "astype", "copy") and a.args and isinstance(a.args[0], Rat) and \
            not any(isinstance(x, tuple) and x and x[0] == "kw:axis" and x[1] is None for x in a.args[1:]):
        return static_shape(a.args[0])
    if a.name in _ELEMENTWISE_FNS and all(isinstance(x, Rat) for x in a.args):
        shp = ()
        for x in a.args:
            s_ = static_shape(x)
            if s_ is None:
                return None
            shp = _bcast(shp, s_)
        return shp
    return None


def leading_length(v):
    s_ = static_shape(v)
    return s_[0] if s_ else None


STR_METHODS = {"strip", "lstrip", "rstrip", "upper", "lower", "title", "capitalize", "replace", "casefold", "swapcase"}
CMP_NAMES = {"Lt": "<", "LtE": "<=", "Gt": ">", "GtE": ">=", "Eq": "==", "NotEq": "!=", "In": "in", "NotIn": "not in"}


def _split_block_store(idx, rhs):
    """a[r0:r1, c0:c1] op= block([[A, B], [B, D]]) * f  is the four stores of A f, B f, B f, D f into the quadrants of the
    window: with the same off-diagonal entry in both places numpy.block forces all four blocks to one shape, so the window
    is split in the middle of both axes.  Order: left column first (top, bottom), then the right column."""
    if not (isinstance(idx, tuple) and len(idx) == 2 and all(_is_slice(x) and x[3] is None and isinstance(x[1], Rat) and isinstance(x[2], Rat)
                                                              for x in idx) and isinstance(rhs, Rat)):
        return None
    blocks = [a for a in rhs.atoms(False) if isinstance(a, Fn) and a.name == "block"]
    if len(blocks) != 1:
        return None
    b = blocks[0]
    rows = b.args[0]
    if not (isinstance(rows, tuple) and len(rows) == 2 and all(isinstance(r_, tuple) and len(r_) == 2 and all(isinstance(x, Rat) for x in r_)
                                                                 for r_ in rows) and vkey(rows[0][1]) == vkey(rows[1][0])):
        return None
    (A, B), (C, D) = rows
    from .plf import simplify_ratio
    try:
        f = simplify_ratio(rhs / Rat.atom(b))
    except ZeroDivisionError:
        return None
    if any(isinstance(a, Fn) and a.name == "block" for a in f.atoms()) or not (f * Rat.atom(b) == rhs):
        return None
    (_, r0, r1, _), (_, c0, c1, _) = idx
    hr, hc = (r1 - r0) / 2, (c1 - c0) / 2
    sl = lambda lo, hi: ("slice", lo, hi, None)
    return [((sl(r0, r0 + hr), sl(c0, c0 + hc)), A * f), ((sl(r0 + hr, r1), sl(c0, c0 + hc)), C * f),
            ((sl(r0, r0 + hr), sl(c0 + hc, c1)), B * f), ((sl(r0 + hr, r1), sl(c0 + hc, c1)), D * f)]


_ELEMENTWISE_FNS = frozenset({"exp", "sqrt", "cos", "sin", "abs", "conj", "real", "imag", "log", "pow", "exp10", "log10", "tan"})


def _item_of_leading_broadcast(v, idx):
    """Item `idx` (along the leading axis) of an element-wise expression whose only operands of full rank R are
    v_j.reshape(n, 1, ..., 1): every other operand has a lower rank, so broadcasting repeats it in each item, and the item
    is the same expression with v_j.reshape(n, 1, ..., 1) replaced by the scalar v_j.ravel()[idx].  None when the
    expression is not of that form (the caller keeps the opaque item)."""
    found = {"R": None, "other": 0, "bad": False}

    def f(a):
        if found["bad"]:
            return Rat.atom(a)
        if isinstance(a, Sym):
            if not any(fl in a.flags for fl in ("scalar", "int", "size", "loopvar")):
                found["bad"] = True
            return Rat.atom(a)
        if isinstance(a, PowA):
            return None
        if isinstance(a, Fn):
            if a.name == "reshape" and len(a.args) >= 2 and isinstance(a.args[0], Rat):
                shp = a.args[1] if len(a.args) == 2 and isinstance(a.args[1], tuple) else tuple(a.args[1:])
                if len(shp) >= 2 and all(isinstance(x, Rat) for x in shp) and all(x.real_const() == 1 for x in shp[1:]) \
                        and found["R"] in (None, len(shp)):
                    found["R"] = len(shp)
                    return Rat.atom(Fn("getitem", (Rat.atom(Fn("flatten", (a.args[0],))), idx)))
                found["bad"] = True
                return Rat.atom(a)
            if a.name == "grid":
                found["other"] = max(found["other"], 2)
                return Rat.atom(a)
            if a.name in ("shape", "len", "size"):
                return Rat.atom(a)
            if a.name in _ELEMENTWISE_FNS and all(isinstance(x, Rat) for x in a.args):
                return None
        found["bad"] = True
        return Rat.atom(a)
    if not any(isinstance(a, Fn) and a.name == "reshape" for a in v.atoms(True)):
        return None
    out = v.subst(f)
    if found["bad"] or found["R"] is None or found["other"] >= found["R"]:
        return None
    return out


def _flat_index_grid(l, r, axis):
    """reshape(arange(a*b), (a, b)) % b is the column index (the vector arange(b) along axis 1), // b the row index (arange(a)
    along axis 0)"""
    a = l.single_atom() if isinstance(l, Rat) else None
    if not (isinstance(a, Fn) and a.name == "reshape" and len(a.args) >= 2 and isinstance(a.args[0], Rat) and isinstance(r, Rat)):
        return None
    shp = a.args[1] if len(a.args) == 2 and isinstance(a.args[1], tuple) else tuple(a.args[1:])
    ar = a.args[0].single_atom()
    if not (len(shp) == 2 and all(isinstance(x, Rat) for x in shp) and isinstance(ar, Fn) and ar.name == "arange" and len(ar.args) == 3
            and isinstance(ar.args[0], Rat) and ar.args[0].is_zero() and isinstance(ar.args[2], Rat) and ar.args[2].real_const() == 1
            and isinstance(ar.args[1], Rat) and ar.args[1] == shp[0] * shp[1] and r == shp[1]):
        return None
    return mk_grid(Rat.atom(Fn("arange", (Rat.const(0), shp[axis], Rat.const(1)))), axis)


def mk_T(x):
    """transpose with the algebra pushed inwards: T(T(a)) = a, T(a.b) = T(b).T(a), T(pinv(M)) = pinv(T(M)),
    T(M[r, c]) = T(M)[c, r], T(S) = S for symbols flagged symmetric; elementwise products and sums distribute."""
    if not isinstance(x, Rat):
        return Rat.atom(Fn("T", (x,)))
    if x.is_const():
        return x

    def t_atom(a):
        if isinstance(a, Sym):
            if "symmetric" in a.flags or "scalar" in a.flags or "int" in a.flags or "size" in a.flags:
                return Rat.atom(a)
            if "array" in a.flags:
                return Rat.atom(Fn("T", (Rat.atom(a),)))
            return None
        if isinstance(a, Fn):
            if a.name == "T" and len(a.args) == 1 and isinstance(a.args[0], Rat):
                return a.args[0]
            if a.name == "dot" and len(a.args) == 2 and all(isinstance(y, Rat) for y in a.args):
                return Rat.atom(Fn("dot", (mk_T(a.args[1]), mk_T(a.args[0]))))
            if a.name in ("pinv", "inv") and isinstance(a.args[0], Rat):
                return Rat.atom(Fn(a.name, (mk_T(a.args[0]),) + tuple(a.args[1:])))
            if a.name == "getitem" and isinstance(a.args[0], Rat) and isinstance(a.args[1], tuple) and len(a.args[1]) == 2 \
                    and all(isinstance(i, tuple) and i and i[0] == "slice" for i in a.args[1]):
                return Rat.atom(Fn("getitem", (mk_T(a.args[0]), (a.args[1][1], a.args[1][0]))))
            if a.name in ("identity", "diagmat"):
                return Rat.atom(a)
            if a.name == "grid" and len(a.args) == 2 and a.args[1] in (0, 1):
                return Rat.atom(Fn("grid", (a.args[0], 1 - a.args[1])))       # a vector along one axis of a 2-D array, transposed
        return None
    if not x.den_is_one():
        # the quotient is elementwise: T(n / d) = T(n) / T(d)
        nT, dT = mk_T(Rat(dict(x.num))), mk_T(Rat(dict(x.den)))
        whole = lambda v, src: isinstance(v.single_atom(), Fn) and v.single_atom().name == "T" and len(src) > 1
        if whole(nT, x.num) or whole(dT, x.den):
            return Rat.atom(Fn("T", (x,)))
        return nT / dT
    out = Rat({})
    for m, c in x.num.items():
        t = Rat.const(c)
        for a, e in m:
            ta = t_atom(a)
            if ta is None:
                return Rat.atom(Fn("T", (x,)))
            t = t * rpow(ta, e)
        out = out + t
    return out


def mk_cmp(op, l, r):
    """canonical comparison atom: only < and <= and == / != are used."""
    if op == ">":
        op, l, r = "<", r, l
    elif op == ">=":
        op, l, r = "<=", r, l
    return Rat.atom(Fn("cmp", (op, l, r)))


class ModTable(object):
    """module-level dict literal: lookups with symbolic key stay symbolic."""
    def __init__(self, name, node, interp):
        self.name = name
        self.node = node
        self.keys = []
        self.values = {}
        for k, v in zip(node.keys, node.values):
            kk = k.value if isinstance(k, ast.Constant) else norm_text(k)
            self.keys.append(kk)
            self.values[kk] = v
        self.interp = interp

    def getitem(self, idx):
        k = pyconst(idx) if isinstance(idx, Rat) else idx
        if not isinstance(k, Rat) and k in self.values:
            return self.interp.ev(self.values[k], {}, None)
        return Rat.atom(Fn("getitem", (Rat.sym(self.name, ("global",)), idx)))

    def __contains__(self, k):
        return k in self.values


BUILTINS = {"float", "int", "abs", "len", "range", "round", "str", "min", "max", "sum", "enumerate",
            "zip", "list", "tuple", "print", "isinstance", "complex", "bool", "dict", "sorted",
            "ValueError", "TypeError", "IndexError", "AttributeError", "ZeroDivisionError",
            "Exception", "type", "map", "reversed", "any", "all", "divmod", "pow", "set", "slice", "iter", "next"}

EXT_CONST = {"numpy.pi": math.pi, "math.pi": math.pi, "numpy.e": math.e, "math.e": math.e,
             "scipy.pi": math.pi}

EXT_CALLS = {}


def ext(*names):
    def deco(f):
        for n in names:
            EXT_CALLS[n] = f
        return f
    return deco


def _np(*names):
    out = []
    for n in names:
        out.append("numpy." + n)
    return out


@ext("builtins.float", "numpy.float64", "numpy.float32", "numpy.double", "builtins.complex",
     "numpy.complex128", "numpy.asarray", "numpy.asanyarray", "numpy.copy", "numpy.ascontiguousarray")
def _transparent(I, a, k, e, env, ctx):
    if len(a) >= 1 and isinstance(a[0], Rat):
        return a[0]
    if len(a) == 1 and isinstance(a[0], (list, tuple)):
        return Rat.atom(Fn("array", (tuple(a[0]),)))
    return NotImplemented


@ext("numpy.array")
def _array(I, a, k, e, env, ctx):
    if a and isinstance(a[0], Rat):
        if "dtype" in k or len(a) > 1:
            return a[0]        # dtype cast: value-preserving for the normal form (noted)
        return a[0]
    if a and isinstance(a[0], (list, tuple)):
        return Rat.atom(Fn("array", (tuple(a[0]),)))
    return NotImplemented


@ext("numpy.block")
def _block(I, a, k, e, env, ctx):
    if len(a) == 1 and not k and isinstance(a[0], (list, tuple)) and a[0] and \
            all(isinstance(r_, (list, tuple)) and len(r_) == len(a[0][0]) and all(isinstance(x, Rat) for x in r_) for r_ in a[0]):
        return Rat.atom(Fn("block", (tuple(tuple(r_) for r_ in a[0]),)))
    return NotImplemented


@ext("numpy.ptp")
def _ptp(I, a, k, e, env, ctx):
    # peak to peak: max - min
    ax = a[1] if len(a) > 1 else k.get("axis")
    if a and isinstance(a[0], Rat) and set(k) <= {"axis"}:
        return mk_reduce("max", a[0], _axis(ax)) - mk_reduce("min", a[0], _axis(ax))
    return NotImplemented


@ext("numpy.ix_")
def _ix(I, a, k, e, env, ctx):
    # open mesh: a[ix_(r, c, ...)] picks a[r[i], c[j], ...]
    if a and all(isinstance(x, Rat) for x in a) and not k:
        return Rat.atom(Fn("ix_", tuple(a)))
    return NotImplemented


@ext("numpy.stack")
def _stack(I, a, k, e, env, ctx):
    # stacking along a new leading axis is what numpy.array does with a list of equal-shape arrays
    ax = a[1] if len(a) > 1 else k.get("axis", Rat.const(0))
    if a and isinstance(ax, Rat) and ax.is_zero() and set(k) <= {"axis"}:
        if isinstance(a[0], Rat):
            return a[0]
        if isinstance(a[0], (list, tuple)):
            return Rat.atom(Fn("array", (tuple(a[0]),)))
    axc = ax.real_const() if isinstance(ax, Rat) else None
    if a and axc in (1, -1) and set(k) <= {"axis"} and isinstance(a[0], (list, tuple)) and a[0] and \
            all(isinstance(x, Rat) and (x.is_const() or _all_1d(x)) for x in a[0]) and any(_all_1d(x) for x in a[0] if not x.is_const()):
        # vectors stacked along a new last axis are the columns of a table (a constant stands for numpy.full(n, c))
        return Rat.atom(Fn("column_stack", (tuple(a[0]),)))
    return NotImplemented


@ext("builtins.dict")
def _dict(I, a, k, e, env, ctx):
    # dict(name=value, ...) (optionally on top of one dict): the mapping itself, so that f(**d) binds by name
    if not a or (len(a) == 1 and isinstance(a[0], dict)):
        out = dict(a[0]) if a else {}
        out.update(k)
        return out
    return NotImplemented


@ext("builtins.int")
def _int(I, a, k, e, env, ctx):
    if a and isinstance(a[0], Rat):
        c = a[0].real_const()
        if c is not None:
            return Rat.const(int(c))
        if I.int_transparent:
            return a[0]
        return Rat.atom(Fn("int", (a[0],)))
    return NotImplemented


@ext("builtins.round", "numpy.round", "numpy.around", "numpy.rint")
def _round(I, a, k, e, env, ctx):
    if a and isinstance(a[0], Rat):
        c = a[0].real_const()
        if c is not None and len(a) == 1:
            return Rat.const(round(c))
        if I.round_transparent:
            return a[0]
        return Rat.atom(Fn("round", (a[0],)))
    return NotImplemented


@ext("builtins.abs", "numpy.abs", "numpy.absolute", "numpy.fabs")
def _abs(I, a, k, e, env, ctx):
    if a and isinstance(a[0], Rat):
        return fn_abs(a[0])
    return NotImplemented


@ext("builtins.len")
def _len(I, a, k, e, env, ctx):
    if a and isinstance(a[0], (list, tuple)):
        return Rat.const(len(a[0]))
    if a and isinstance(a[0], ShapeOf):
        v = a[0].v
        if isinstance(v, Rat):
            car = sorted(set(x.name for x in v.atoms() if isinstance(x, Sym) and "array" in x.flags))
            if len(car) == 1:
                return Rat.sym("ndim(%s)" % car[0], ("int",))
        return Rat.atom(Fn("ndim", (v,)))
    if a and isinstance(a[0], Rat):
        if maybe_array(a[0]) and not has_unknown(a[0]):
            # len(x) is x.shape[0]: one normal form for both spellings - where the extent has a name of its own (an array symbol,
            # the size of a draw); a derived array keeps the opaque len(...)
            r_ = I.shape_elem(a[0], 0)
            ra_ = r_.single_atom() if isinstance(r_, Rat) else None
            if isinstance(a[0].single_atom(), Sym) or not (isinstance(ra_, (Sym, Fn)) and (ra_.name.startswith("shape") or ra_.name.startswith("N["))):
                return r_
        return Rat.atom(Fn("len", (a[0],)))
    return NotImplemented


@ext("builtins.range", "numba.prange")
def _range(I, a, k, e, env, ctx):
    a = list(a)
    if len(a) == 1:
        return RangeVal(Rat.const(0), a[0], Rat.const(1))
    if len(a) == 2:
        return RangeVal(a[0], a[1], Rat.const(1))
    if len(a) == 3:
        return RangeVal(a[0], a[1], a[2])
    return NotImplemented


@ext("builtins.enumerate")
def _enumerate(I, a, k, e, env, ctx):
    start = a[1] if len(a) > 1 else k.get("start")
    if start is None or (isinstance(start, Rat) and start.is_zero()):
        return ("enumerate", a[0])
    return ("enumerate", a[0], start)


@ext("builtins.iter")
def _iter(I, a, k, e, env, ctx):
    if len(a) == 1 and isinstance(a[0], SeqList) and a[0].seq() is not None:
        return IterVal(a[0], getattr(ctx, "loop_depth", 0))
    return NotImplemented


@ext("builtins.next")
def _next(I, a, k, e, env, ctx):
    if len(a) == 1 and isinstance(a[0], IterVal):
        itv = a[0]
        stack = list(getattr(ctx, "loop_stack", []))[itv.depth:]
        if not stack:
            return unk("next_outside_loop")
        # next() must be evaluated exactly once per innermost iteration: a statement of the innermost loop's body
        inner = stack[-1][2]
        top = [st_ for st_ in inner.body if any(n is e for n in ast.walk(st_))]
        if len(top) != 1 or isinstance(top[0], (ast.If, ast.For, ast.While, ast.Try)):
            return unk("next_not_once_per_iteration")
        others = [n for st_ in inner.body for n in ast.walk(st_)
                  if isinstance(n, ast.Call) and isinstance(n.func, ast.Name) and n.func.id == "next" and n is not e
                  and n.args and norm_text(n.args[0]) == norm_text(e.args[0])]
        if others:
            return unk("next_several_per_iteration")
        item, prov = itv.seq.seq()
        return I.align_seq(item, prov, tuple((t_, k_) for t_, k_, _n in stack))
    return NotImplemented


@ext("builtins.zip")
def _zip(I, a, k, e, env, ctx):
    lit = [x for x in a if isinstance(x, (list, tuple)) and not _is_slice(x) and not (isinstance(x, SeqList) and x.seq() is not None)
           and not (x and isinstance(x[0], str))]
    if a and not k and lit and all(isinstance(x, (list, tuple, ShapeOf)) for x in a) and len(set(len(x) for x in lit)) == 1 and \
            len(lit) + sum(1 for x in a if isinstance(x, ShapeOf)) == len(a):
        # literal sequences of one length (a shape zipped with a tuple of that length names the extents from the end)
        n = len(lit[0])
        cols = [list(x) if not isinstance(x, ShapeOf) else [I.shape_elem(x.v, i - n, n) for i in range(n)] for x in a]
        return [tuple(c[i] for c in cols) for i in range(n)]
    if a and all(isinstance(x, (Rat, list, tuple)) for x in a) and not k:
        return ("zip", tuple(a))
    return NotImplemented


@ext("builtins.print")
def _print(I, a, k, e, env, ctx):
    return None


@ext("builtins.str")
def _str(I, a, k, e, env, ctx):
    return "<str>"


@ext("builtins.max", "builtins.min")
def _maxmin(I, a, k, e, env, ctx):
    nm = "maximum" if norm_text(e.func).endswith("max") else "minimum"
    if len(a) >= 2 and all(isinstance(x, Rat) for x in a):
        return Rat.atom(Fn(nm, tuple(a)))
    return NotImplemented


@ext("numpy.max", "numpy.amax", "numpy.min", "numpy.amin", "numpy.sum", "numpy.mean", "numpy.std",
     "numpy.var", "numpy.argmin", "numpy.argmax", "numpy.prod", "numpy.median")
def _reduce(I, a, k, e, env, ctx):
    nm = norm_text(e.func).split(".")[-1]
    nm = {"amax": "max", "amin": "min"}.get(nm, nm)
    x = a[0] if a else None
    ax = a[1] if len(a) > 1 else k.get("axis")
    if isinstance(x, (tuple, list)) and nm in ("max", "min") and all(isinstance(t, Rat) for t in x):
        return Rat.atom(Fn("maximum" if nm == "max" else "minimum", tuple(x)))
    if isinstance(x, Rat):
        return mk_reduce(nm, x, _axis(ax), getattr(ctx, "loop_depth", None))
    return NotImplemented


def _sum_over_leading_axes(x, m, depth):
    """sum over the m leading axes of an element-wise expression whose only operands of full rank are v[:, ..., :, None, ..., None]
    (m full slices, then r new axes) with v of constant extents (n1, ..., nm), every other operand having rank <= r: that is
    sum_{i1 < n1} ... sum_{im < nm} of the expression with v replaced by the scalar v[i1, ..., im] - the nest of loops
    `for i1 in range(n1): ... acc += ...` (same normal form).  None when the expression is not of that form."""
    st = {"r": None, "dims": [None] * m, "bad": False, "other": 0, "n": 0}
    ivars = [Rat.sym("B@%d" % (depth + 1 + k_), ("int", "loopvar")) for k_ in range(m)]

    def f(a):
        if st["bad"]:
            return Rat.atom(a)
        if isinstance(a, Sym):
            if any(fl in a.flags for fl in ("array", "field", "attr")):
                st["bad"] = True
            return Rat.atom(a)
        if isinstance(a, PowA):
            return None
        if isinstance(a, Fn):
            if a.name == "getitem" and isinstance(a.args[0], Rat) and isinstance(a.args[1], tuple) and not _is_slice(a.args[1]) and \
                    len(a.args[1]) > m and all(_is_full_slice(q) for q in a.args[1][:m]) and all(q is None for q in a.args[1][m:]):
                r_ = len(a.args[1]) - m
                shp = static_shape(a.args[0])
                if st["r"] not in (None, r_) or shp is None or len(shp) != m:
                    st["bad"] = True
                    return Rat.atom(a)
                st["r"] = r_
                st["n"] += 1
                for k_, d_ in enumerate(shp):
                    if d_ is not None and d_ > 1:
                        if st["dims"][k_] not in (None, d_):
                            st["bad"] = True
                        st["dims"][k_] = d_
                return Rat.atom(Fn("getitem", (a.args[0], tuple(ivars) if m > 1 else ivars[0])))
            if a.name == "grid":
                st["other"] = max(st["other"], 2)
                return Rat.atom(a)
            if a.name in ("shape", "len", "size"):
                return Rat.atom(a)
            if a.name in _ELEMENTWISE_FNS and all(isinstance(q, Rat) for q in a.args):
                return None
        st["bad"] = True
        return Rat.atom(a)
    body = x.subst(f)
    if st["bad"] or not st["n"] or st["r"] is None or st["other"] > st["r"] or any(d_ is None for d_ in st["dims"]):
        return None
    out = body
    for k_ in reversed(range(m)):
        out = Rat.atom(Fn("loopsum", (out, "B@%d" % (depth + 1 + k_), (Rat.const(0), Rat.const(st["dims"][k_]), Rat.const(1)))))
    return out


def mk_reduce(nm, x, ax, depth=None):
    """reduction atom; a reduction along axis k >= 1 of a stacked comprehension reduces each item along axis k - 1:
    array([f(c) for c in rng]).sum(1) is array([f(c).sum(0) for c in rng])"""
    la = x.single_atom() if isinstance(x, Rat) else None
    if isinstance(ax, tuple) and all(isinstance(q, Rat) and q.real_const() is not None and q.real_const() == int(q.real_const()) for q in ax):
        ax = tuple(int(q.real_const()) for q in ax)
    if nm == "sum" and depth is not None and isinstance(x, Rat) and not isinstance(ax, bool) and \
            (ax == 0 or (isinstance(ax, tuple) and ax and ax == tuple(range(len(ax))))):
        got = _sum_over_leading_axes(x, 1 if ax == 0 else len(ax), depth)
        if got is not None:
            return got
    if isinstance(la, Fn) and la.name == "listcomp" and isinstance(ax, int) and not isinstance(ax, bool) and ax >= 1 and isinstance(la.args[0], Rat) \
            and nm in ("sum", "mean", "max", "min", "std", "var", "prod"):
        return Rat.atom(Fn("listcomp", (Rat.atom(Fn(nm, (la.args[0], ax - 1))),) + tuple(la.args[1:])))
    return Rat.atom(Fn(nm, (x, ax)))


@ext("numpy.maximum", "numpy.minimum", "numpy.fmax", "numpy.fmin")
def _maximum(I, a, k, e, env, ctx):
    nm = norm_text(e.func).split(".")[-1]
    nm = {"fmax": "maximum", "fmin": "minimum"}.get(nm, nm)      # they differ only in how a nan operand is treated
    if len(a) == 2 and isinstance(a[0], Rat):
        b = a[1]
        if not isinstance(b, Rat):
            b = _vk(b) if not has_unknown(b) else b
        return Rat.atom(Fn(nm, (a[0], b)))
    return NotImplemented


@ext("numpy.sqrt", "math.sqrt", "scipy.sqrt")
def _sqrt(I, a, k, e, env, ctx):
    if a and isinstance(a[0], Rat):
        return rpow(a[0], Fraction(1, 2))
    return NotImplemented


@ext("numpy.square")
def _square(I, a, k, e, env, ctx):
    if a and isinstance(a[0], Rat):
        return a[0] * a[0]
    return NotImplemented


@ext("numpy.power", "builtins.pow", "math.pow")
def _power(I, a, k, e, env, ctx):
    if len(a) == 2 and isinstance(a[0], Rat) and isinstance(a[1], Rat):
        return rpow(a[0], a[1])
    return NotImplemented


@ext("numpy.multiply")
def _mul(I, a, k, e, env, ctx):
    if len(a) == 2 and isinstance(a[0], Rat) and isinstance(a[1], Rat) and not k:
        return a[0] * a[1]
    return NotImplemented


@ext("numpy.divide", "numpy.true_divide")
def _div(I, a, k, e, env, ctx):
    if len(a) == 2 and isinstance(a[0], Rat) and isinstance(a[1], Rat) and not k:
        return a[0] / a[1]
    return NotImplemented


@ext("numpy.add")
def _add(I, a, k, e, env, ctx):
    if len(a) == 2 and isinstance(a[0], Rat) and isinstance(a[1], Rat) and not k:
        return a[0] + a[1]
    return NotImplemented


@ext("numpy.subtract")
def _sub(I, a, k, e, env, ctx):
    if len(a) == 2 and isinstance(a[0], Rat) and isinstance(a[1], Rat) and not k:
        return a[0] - a[1]
    return NotImplemented


@ext("numpy.exp", "math.exp", "cmath.exp")
def _exp(I, a, k, e, env, ctx):
    if a and isinstance(a[0], Rat):
        return fn_exp(a[0], "exp")
    return NotImplemented


@ext("numpy.log10", "math.log10")
def _log10(I, a, k, e, env, ctx):
    if a and isinstance(a[0], Rat):
        return fn_log10(a[0])
    return NotImplemented


@ext("numpy.cos", "numpy.sin", "numpy.tan", "numpy.arctan2", "numpy.arctan", "numpy.log", "numpy.arccos",
     "numpy.arcsin", "math.cos", "math.sin", "math.log", "numpy.fmod", "numpy.sign", "numpy.floor",
     "numpy.ceil", "numpy.hypot", "numpy.log2", "numpy.sinc", "numpy.angle", "numpy.isnan", "numpy.isfinite")
def _elementwise(I, a, k, e, env, ctx):
    nm = norm_text(e.func).split(".")[-1]
    if all(isinstance(x, Rat) for x in a) and not k:
        cs = [x.real_const() for x in a]
        if all(c is not None for c in cs) and hasattr(math, nm.replace("arc", "a")):
            try:
                return Rat.const(getattr(math, nm.replace("arc", "a"))(*cs))
            except Exception:
                pass
        return Rat.atom(Fn(nm, tuple(a)))
    return NotImplemented


@ext("scipy.special.gamma", "math.gamma")
def _gamma(I, a, k, e, env, ctx):
    if a and isinstance(a[0], Rat):
        c = a[0].real_const()
        if c is not None:
            return Rat.const(math.gamma(c))
        return Rat.atom(Fn("gamma", (a[0],)))
    return NotImplemented


@ext("math.factorial", "numpy.math.factorial", "scipy.special.factorial", "scipy.math.factorial")
def _factorial(I, a, k, e, env, ctx):
    if a and isinstance(a[0], Rat):
        c = pyconst(a[0])
        if isinstance(c, int) and c >= 0:
            return Rat.const(math.factorial(c))
        return Rat.atom(Fn("factorial", (a[0],)))
    return NotImplemented


@ext("scipy.special.kv")
def _kv(I, a, k, e, env, ctx):
    if len(a) == 2:
        return Rat.atom(Fn("kv", (a[0], a[1])))
    return NotImplemented


@ext("numpy.arange")
def _arange(I, a, k, e, env, ctx):
    a = list(a)
    if "dtype" in k:
        pass
    if len(a) == 1:
        lo, hi, st = Rat.const(0), a[0], Rat.const(1)
    elif len(a) == 2:
        lo, hi, st = a[0], a[1], Rat.const(1)
    elif len(a) == 3:
        lo, hi, st = a
    else:
        return NotImplemented
    return Rat.atom(Fn("arange", (lo, hi, st)))


@ext("numpy.linspace")
def _linspace(I, a, k, e, env, ctx):
    a = list(a)
    num = a[2] if len(a) > 2 else k.get("num", Rat.const(50))
    endpoint = k.get("endpoint", True)
    extra = tuple(("kw:" + kk, _vk2(v)) for kk, v in sorted(k.items()) if kk not in ("num", "endpoint"))
    if len(a) >= 2:
        return Rat.atom(Fn("linspace", (a[0], a[1], num, endpoint) + extra))
    return NotImplemented


@ext("numpy.meshgrid")
def _meshgrid(I, a, k, e, env, ctx):
    ind = k.get("indexing", "xy")
    if len(a) == 2 and all(isinstance(x, Rat) for x in a) and set(k) <= {"indexing"} and ind in ("xy", "ij"):
        out_ = (mk_grid(a[0], 0), mk_grid(a[1], 1)) if ind == "ij" else (mk_grid(a[0], 1), mk_grid(a[1], 0))
        # the replicated-vector form grid(v, axis) does not say how often v is replicated; remember it for the vectors of this
        # call when both lengths are constants (used to name iteration domains only, see static_shape)
        l0_, l1_ = leading_length(a[0]), leading_length(a[1])
        if l0_ is not None and l1_ is not None:
            for g_, other_ in ((out_[0], l1_), (out_[1], l0_)):
                for at_ in (g_.atoms(False) if isinstance(g_, Rat) else ()):
                    if isinstance(at_, Fn) and at_.name == "grid":
                        prev_ = _GRID_OTHER.get(at_.key())
                        _GRID_OTHER[at_.key()] = other_ if prev_ in (None, other_) else -1          # -1: ambiguous
        return out_
    return NotImplemented


def _all_1d(v):
    """every array-valued atom of v is a known vector producer (arange / linspace): v is 1-D"""
    got = False
    for a in v.atoms(False):
        if isinstance(a, PowA):
            if not _all_1d(a.base):
                return False
            got = True
            continue
        if isinstance(a, Fn) and a.name in ("arange", "linspace"):
            got = True
            continue
        if isinstance(a, Sym) and not any(f in a.flags for f in ("array", "field", "attr")):
            continue            # drivers flag array-valued parameters; an unflagged symbol is a scalar parameter
        if isinstance(a, Fn) and a.name in SCALAR_FNS:
            continue
        return False
    return got


def _is_arrayish(a):
    from .plf import ARRAY_FNS
    if isinstance(a, Fn) and (a.name in ARRAY_FNS or a.name in ("getitem", "grid")):
        return True
    if isinstance(a, Sym) and "array" in a.flags:
        return True
    return False


def mk_grid(arg, axis):
    """grid(s * A, axis) = s * grid(A, axis) for a scalar factor s (no array atoms)."""
    if isinstance(arg, Rat) and not arg.den_is_one() and not Rat(dict(arg.den)).has_atom(_is_arrayish):
        return mk_grid(Rat(dict(arg.num)), axis) / Rat(dict(arg.den))
    st = arg.single_term() if isinstance(arg, Rat) else None
    if st is None:
        if isinstance(arg, Rat) and arg.den_is_one() and len(arg.num) > 1:
            # broadcasting is elementwise: grid(P(a, b, ...)) = P(grid(a), grid(b), ...) for a polynomial P
            out = Rat({})
            for m_, c_ in arg.num.items():
                out = out + mk_grid(Rat({m_: c_}), axis)
            return out
        return Rat.atom(Fn("grid", (arg, axis)))
    coef, mono = st
    arr = tuple((a, e) for a, e in mono if Rat.atom(a).has_atom(_is_arrayish))
    sca = tuple((a, e) for a, e in mono if not Rat.atom(a).has_atom(_is_arrayish))
    if not arr:
        return arg if isinstance(arg, Rat) else Rat.atom(Fn("grid", (arg, axis)))       # a scalar broadcasts to itself
    out = Rat({sca: coef})
    for a_, e_ in arr:
        # a power of a replicated vector is the replicated power: grid(a)^e
        out = out * Rat({((Fn("grid", (Rat.atom(a_), axis)), e_),): 1.0})
    return out


@ext("numpy.indices")
def _indices(I, a, k, e, env, ctx):
    if len(a) == 1:
        shp = a[0]
        if isinstance(shp, ShapeOf):
            shp = (I.shape_elem(shp.v, -2), I.shape_elem(shp.v, -1))
        if isinstance(shp, (tuple, list)) and len(shp) == 2:
            # indices((ny, nx)) -> (row index grid, column index grid)
            return (Rat.atom(Fn("grid", (Rat.atom(Fn("arange", (Rat.const(0), shp[0], Rat.const(1)))), 0))),
                    Rat.atom(Fn("grid", (Rat.atom(Fn("arange", (Rat.const(0), shp[1], Rat.const(1)))), 1))))
    return NotImplemented


@ext("numpy.zeros", "numpy.zeros_like")
def _zeros(I, a, k, e, env, ctx):
    I.alloc_log.append((ctx.finfo.fq, norm_text(e.func), a, k, e.lineno))
    return Rat.const(0)


@ext("numpy.ones", "numpy.ones_like")
def _ones(I, a, k, e, env, ctx):
    return Rat.const(1)


@ext("numpy.empty", "numpy.empty_like")
def _empty(I, a, k, e, env, ctx):
    return Rat.atom(Fn("uninit", (e.lineno,)))


@ext("numpy.subtract.outer", "numpy.add.outer", "numpy.multiply.outer", "numpy.outer")
def _outer(I, a, k, e, env, ctx):
    if len(a) == 2 and all(isinstance(x, Rat) for x in a):
        nm = {"subtract": "outer_sub", "add": "outer_add"}.get(norm_text(e.func).split(".")[-2], "outer")
        return Rat.atom(Fn(nm, (a[0], a[1])))
    return NotImplemented


@ext("builtins.divmod")
def _divmod(I, a, k, e, env, ctx):
    if len(a) == 2 and all(isinstance(x, Rat) for x in a):
        return (Rat.atom(Fn("floordiv", (a[0], a[1]))), Rat.atom(Fn("mod", (a[0], a[1]))))
    return NotImplemented


@ext("builtins.slice")
def _slice_obj(I, a, k, e, env, ctx):
    if 1 <= len(a) <= 3 and not k:
        lo, hi, st = (None, a[0], None) if len(a) == 1 else (a[0], a[1], a[2] if len(a) == 3 else None)
        if st is None or (isinstance(st, Rat) and st.real_const() == 1):
            st = None
            if lo is None:
                lo = Rat.const(0)
        return ("slice", lo, hi, st)
    return NotImplemented


@ext("numpy.nonzero")
def _nonzero(I, a, k, e, env, ctx):
    # nonzero(c) is where(c) with one argument: the tuple of index arrays of the true cells, in row-major order
    if len(a) == 1 and isinstance(a[0], Rat) and not k:
        return Rat.atom(Fn("where1", (a[0],)))
    return NotImplemented


@ext("numpy.argwhere")
def _argwhere(I, a, k, e, env, ctx):
    # argwhere(c) is transpose(nonzero(c)) (NumPy documentation) = array(where(c)).T
    if len(a) == 1 and isinstance(a[0], Rat):
        return mk_T(Rat.atom(Fn("where1", (a[0],))))
    if len(a) == 1 and isinstance(a[0], bool):
        return mk_T(Rat.atom(Fn("where1", (a[0],))))
    return NotImplemented


@ext("numpy.full", "numpy.full_like")
def _full(I, a, k, e, env, ctx):
    v = a[1] if len(a) > 1 else k.get("fill_value")
    if isinstance(v, Rat) and v.is_const():
        I.alloc_log.append((ctx.finfo.fq, norm_text(e.func), a, k, e.lineno))
        return v
    return NotImplemented


def _is_slice(x):
    return isinstance(x, tuple) and len(x) == 4 and x[0] == "slice"


def _is_full_slice(x):
    return _is_slice(x) and x[2] is None and x[3] is None and (x[1] is None or (isinstance(x[1], Rat) and x[1].is_zero()))


def mk_getitem(o, idx):
    """o[idx]; consecutive basic slicings of different axes compose: x[a:b][:, c:d] and x[:, c:d][a:b] are x[a:b, c:d]"""
    if isinstance(idx, tuple) and len(idx) == 0:
        return o            # x[()] is x (the scalar of a 0-d array, the array itself otherwise)
    a = o.single_atom() if isinstance(o, Rat) else None
    if isinstance(a, Fn) and a.name == "array" and len(a.args) == 1 and isinstance(a.args[0], tuple) and isinstance(idx, Rat) and \
            isinstance(pyconst(idx), int) and -len(a.args[0]) <= pyconst(idx) < len(a.args[0]) and isinstance(a.args[0][pyconst(idx)], Rat):
        return a.args[0][pyconst(idx)]          # item k of a stack written out item by item
    if isinstance(a, Fn) and a.name == "setitem" and len(a.args) == 3 and isinstance(a.args[1], Rat) and isinstance(idx, Rat) and \
            isinstance(a.args[0], Rat):
        i_, j_ = pyconst(a.args[1]), pyconst(idx)
        if isinstance(i_, int) and isinstance(j_, int) and (i_ < 0) == (j_ < 0):
            # reading item j of a sequence whose item i was just replaced (constant indices counted from the same end)
            if i_ == j_ and isinstance(a.args[2], Rat):
                return a.args[2]
            if i_ != j_:
                return mk_getitem(a.args[0], idx)
    if a is None and isinstance(o, Rat) and isinstance(idx, Rat) and o.den_is_one() and len(o.num) == 1:
        # (c * x)[i] is c * x[i] for a numeric constant c
        (mono, coef), = o.num.items()
        if len(mono) == 1 and mono[0][1] == 1 and isinstance(mono[0][0], Fn) and mono[0][0].name == "concat":
            return Rat.const(coef) * mk_getitem(Rat.atom(mono[0][0]), idx)
    if isinstance(a, Fn) and a.name == "concat" and isinstance(idx, Rat) and len(a.args) == 2 and a.args[1] in (0, None) and \
            isinstance(a.args[0], tuple) and len(a.args[0]) == 2:
        # table of prefix sums: concatenate(([0], cumsum(v)))[i] is v[:i].sum()
        z, cs = a.args[0]
        z0 = z[0] if isinstance(z, (tuple, list)) and len(z) == 1 else z if isinstance(z, Rat) and z.is_zero() else (z.single_atom().args[0][0]
                                                                          if isinstance(z, Rat) and isinstance(z.single_atom(), Fn) and
                                                                          z.single_atom().name == "array" and len(z.single_atom().args[0]) == 1 else None)
        ca = cs.single_atom() if isinstance(cs, Rat) else None
        if isinstance(z0, Rat) and z0.is_zero() and isinstance(ca, Fn) and ca.name == "cumsum" and len(ca.args) >= 1 and isinstance(ca.args[0], Rat) \
                and all(x is None for x in ca.args[1:]):
            # ... and the entry c places further on adds the next c items: table[i + c] = v[:i].sum() + v[i] + ... + v[i + c - 1]
            extra = Rat.const(0)
            ts_ = idx.terms()
            if ts_ is not None and len(ts_) > 1:
                c0 = complex(sum(c_ for c_, m_ in ts_ if not m_))
                c0 = c0.real if c0.imag == 0 else None
                if c0 is not None and c0 == int(c0) and 1 <= c0 <= 4:
                    base = idx - Rat.const(c0)
                    for k_ in range(int(c0)):
                        extra = extra + Rat.atom(Fn("getitem", (ca.args[0], base + Rat.const(k_))))
                    idx = base
            return Rat.atom(Fn("sum", (Rat.atom(Fn("getitem", (ca.args[0], ("slice", Rat.const(0), idx, None)))), None))) + extra
    if isinstance(a, Fn) and a.name == "getitem" and isinstance(a.args[0], Rat):
        i1 = a.args[1]
        i1 = (i1,) if _is_slice(i1) else i1
        i2 = (idx,) if _is_slice(idx) else idx
        ok_outer = lambda x: _is_slice(x) or (isinstance(x, Rat) and (x.is_const() or all(isinstance(t, Sym) and "int" in t.flags
                                                                                             for t in x.atoms())))
        if isinstance(i1, tuple) and i1 and all(_is_slice(x) for x in i1) and isinstance(i2, tuple) and i2 and all(ok_outer(x) for x in i2):
            n = max(len(i1), len(i2))
            full = ("slice", Rat.const(0), None, None)
            p1 = list(i1) + [full] * (n - len(i1))
            p2 = list(i2) + [full] * (n - len(i2))
            out = []
            for x1, x2 in zip(p1, p2):
                if _is_full_slice(x1):
                    out.append(x2)
                elif _is_full_slice(x2):
                    out.append(x1)
                else:
                    out = None
                    break
            if out is not None:
                while len(out) > 1 and _is_full_slice(out[-1]) and len(out) > max(len(i1), len(i2)):
                    out.pop()
                return Rat.atom(Fn("getitem", (a.args[0], tuple(out) if len(out) > 1 or isinstance(idx, tuple) or isinstance(a.args[1], tuple)
                                               else out[0])))
    return Rat.atom(Fn("getitem", (o, idx)))


@ext("numpy.split", "numpy.array_split")
def _split(I, a, k, e, env, ctx):
    # split(x, [k1, k2, ...], axis) -> (x[:k1], x[k1:k2], ..., x[kn:]) along that axis (views)
    sec = a[1] if len(a) > 1 else k.get("indices_or_sections")
    ax = a[2] if len(a) > 2 else k.get("axis", Rat.const(0))
    axc = pyconst(ax) if isinstance(ax, Rat) else None
    if a and isinstance(a[0], Rat) and isinstance(sec, (list, tuple)) and not _is_slice(sec) and all(isinstance(x, Rat) for x in sec) \
            and isinstance(axc, int) and axc >= 0 and norm_text(e.func).split(".")[-1] == "split":
        edges = [Rat.const(0)] + list(sec) + [None]
        out = []
        for lo, hi in zip(edges[:-1], edges[1:]):
            sl = ("slice", lo, hi, None)
            out.append(mk_getitem(a[0], sl if axc == 0 else tuple([("slice", Rat.const(0), None, None)] * axc + [sl])))
        return out
    return NotImplemented


@ext("numpy.column_stack")
def _column_stack(I, a, k, e, env, ctx):
    if len(a) == 1 and isinstance(a[0], (tuple, list)):
        return Rat.atom(Fn("column_stack", (tuple(a[0]),)))
    return NotImplemented


@ext("numpy.reshape")
def _reshape_fn(I, a, k, e, env, ctx):
    if len(a) >= 2 and isinstance(a[0], Rat):
        return Rat.atom(Fn("reshape", (a[0], a[1])))
    return NotImplemented


@ext("numpy.clip")
def _clip_fn(I, a, k, e, env, ctx):
    if len(a) >= 3 and isinstance(a[0], Rat) and "out" not in k:
        return Rat.atom(Fn("clip", (a[0], a[1], a[2])))
    return NotImplemented


@ext("numpy.shape")
def _shape_fn(I, a, k, e, env, ctx):
    if len(a) == 1 and isinstance(a[0], Rat):
        return ShapeOf(a[0])
    return NotImplemented


@ext("scipy.ndimage.map_coordinates", "scipy.ndimage.interpolation.map_coordinates")
def _map_coordinates(I, a, k, e, env, ctx):
    if len(a) >= 2 and isinstance(a[0], Rat):
        return Rat.atom(Fn("map_coordinates", (a[0], tuple(a[1]) if isinstance(a[1], (list, tuple)) else a[1],
                                               _vk(k.get("order", 3)), _vk(k.get("mode", "constant")))))
    return NotImplemented


@ext("numpy.cbrt")
def _cbrt(I, a, k, e, env, ctx):
    if len(a) == 1 and isinstance(a[0], Rat):
        return rpow(a[0], Fraction(1, 3))
    return NotImplemented


@ext("numpy.add.reduceat", "numpy.searchsorted", "numpy.bincount", "numpy.cumsum", "numpy.take", "numpy.diff")
def _named_exact(I, a, k, e, env, ctx):
    # fully understood library routines without an algebraic normal form: a named atom (never an unknown `?` atom)
    nm = ".".join(norm_text(e.func).split(".")[-2:]) if "reduceat" in norm_text(e.func) else norm_text(e.func).split(".")[-1]
    return Rat.atom(Fn(nm, tuple(_vk(x) for x in a) + tuple(("kw:" + kk, _vk2(v)) for kk, v in sorted(k.items()))))


@ext("numpy.roll")
def _roll(I, a, k, e, env, ctx):
    if a and isinstance(a[0], Rat):
        sh = a[1] if len(a) > 1 else k.get("shift")
        ax = a[2] if len(a) > 2 else k.get("axis")
        return Rat.atom(Fn("roll", (a[0], sh, ax)))
    return NotImplemented


@ext("numpy.count_nonzero")
def _count_nonzero(I, a, k, e, env, ctx):
    if a and isinstance(a[0], Rat):
        return Rat.atom(Fn("count_nonzero", (a[0], _axis(a[1] if len(a) > 1 else k.get("axis")))))
    return NotImplemented


@ext("numpy.vdot")
def _vdot(I, a, k, e, env, ctx):
    # vdot(a, b) = sum over all elements of conj(a) * b
    if len(a) == 2 and all(isinstance(x, Rat) for x in a):
        return Rat.atom(Fn("sum", (a[0].conj() * a[1], None)))
    return NotImplemented


@ext("numpy.diagonal")
def _diagonal(I, a, k, e, env, ctx):
    if len(a) == 1 and isinstance(a[0], Rat):
        return Rat.atom(Fn("diagonal", (a[0],)))
    return NotImplemented


@ext("numpy.diag", "numpy.diagflat")
def _diag(I, a, k, e, env, ctx):
    # diag of a 1-D array builds the diagonal matrix (of a 2-D array it extracts the diagonal: not decided here)
    if len(a) == 1 and isinstance(a[0], Rat) and not k:
        return Rat.atom(Fn("diagmat", (a[0],)))
    return NotImplemented


@ext("numpy.identity", "numpy.eye")
def _identity(I, a, k, e, env, ctx):
    return Rat.atom(Fn("identity", (a[0],)))


@ext("numpy.where")
def _where(I, a, k, e, env, ctx):
    if len(a) == 3:
        c_ = a[0].single_atom() if isinstance(a[0], Rat) else None
        if isinstance(c_, Fn) and c_.name == "cmp" and c_.args[0] == "!=":
            # where(x != y, A, B) is where(x == y, B, A): one spelling of the selection
            return Rat.atom(Fn("where3", (mk_cmp("==", c_.args[1], c_.args[2]), a[2], a[1])))
        return Rat.atom(Fn("where3", tuple(a)))
    if len(a) == 1:
        return Rat.atom(Fn("where1", tuple(a)))
    return NotImplemented


@ext("numpy.less_equal", "numpy.less", "numpy.greater", "numpy.greater_equal", "numpy.equal", "numpy.not_equal")
def _cmpfn(I, a, k, e, env, ctx):
    nm = norm_text(e.func).split(".")[-1]
    op = {"less_equal": "<=", "less": "<", "greater": ">", "greater_equal": ">=", "equal": "==", "not_equal": "!="}[nm]
    if len(a) == 2:
        return mk_cmp(op, a[0], a[1])
    return NotImplemented


@ext("numpy.dot", "numpy.matmul")
def _dot(I, a, k, e, env, ctx):
    if len(a) == 2:
        return Rat.atom(Fn("dot", (a[0], a[1])))
    return NotImplemented


@ext("numpy.conjugate", "numpy.conj")
def _conj(I, a, k, e, env, ctx):
    if a and isinstance(a[0], Rat):
        return a[0].conj()
    return NotImplemented


@ext("numpy.real")
def _real(I, a, k, e, env, ctx):
    if a and isinstance(a[0], Rat):
        return a[0] if a[0].is_real() else Rat.atom(Fn("real", (a[0],)))
    return NotImplemented


@ext("numpy.transpose")
def _transpose(I, a, k, e, env, ctx):
    if len(a) == 1 and isinstance(a[0], Rat) and not k:
        return mk_T(a[0])
    if a and isinstance(a[0], Rat):
        return Rat.atom(Fn("T", tuple(a)))
    return NotImplemented


@ext("numpy.append", "numpy.concatenate", "numpy.vstack", "numpy.hstack")
def _append(I, a, k, e, env, ctx):
    nm = norm_text(e.func).split(".")[-1]
    ax = k.get("axis", a[2] if (nm == "append" and len(a) > 2) else (a[1] if nm == "concatenate" and len(a) > 1 else None))
    if nm == "append" and len(a) >= 2:
        parts = (a[0], a[1])
    elif a and isinstance(a[0], (tuple, list)):
        parts = tuple(a[0])
        if nm == "vstack":
            ax = Rat.const(0)
        if nm == "hstack":
            ax = Rat.const(1)
    else:
        return NotImplemented
    if nm == "concatenate" and ax is None:
        ax = Rat.const(0)
    # a one-element list / tuple contributes its single element, like the scalar it holds does in numpy.append
    parts = tuple(p_[0] if isinstance(p_, (list, tuple)) and not _is_slice(p_) and len(p_) == 1 and isinstance(p_[0], Rat) else p_ for p_ in parts)
    return Rat.atom(Fn("concat", (tuple(parts), _axis(ax))))


@ext("numpy.fliplr", "numpy.flipud", "numpy.flip", "numpy.rot90", "numpy.sort",
     "numpy.cumsum", "numpy.tile", "numpy.insert", "numpy.delete", "numpy.digitize",
     "numpy.bitwise_or", "numpy.interp", "numpy.fill_diagonal", "numpy.outer", "numpy.trace")
def _named(I, a, k, e, env, ctx):
    nm = norm_text(e.func).split(".")[-1]
    if nm == "sort" and isinstance(k.get("axis"), Rat) and k["axis"].real_const() == -1:
        k = {kk: v for kk, v in k.items() if kk != "axis"}          # the default
    r = Rat.atom(Fn(nm, tuple(_vk(x) for x in a) + tuple(("kw:" + kk, _vk2(v)) for kk, v in sorted(k.items()))))
    if nm == "fill_diagonal" and e.args and isinstance(e.args[0], (ast.Name, ast.Attribute)):
        # in-place: a := diag(v) when a was a zero matrix
        base = a[0]
        if isinstance(base, Rat) and base.is_zero():
            I.rebind(e.args[0], Rat.atom(Fn("diagmat", (a[1],))), State(env), ctx)
        else:
            I.rebind(e.args[0], Rat.atom(Fn("filldiag", (base, a[1]))), State(env), ctx)
        return None
    return r


def _fft_fn(name):
    def h(I, a, k, e, env, ctx):
        if not a:
            # the array by keyword (numpy names it `a`, the shift functions `x`); defaults spelled out are the defaults
            key_ = "x" if name.endswith("shift") else "a"
            if isinstance(k.get(key_), Rat):
                a = [k[key_]]
                k = {kk: v for kk, v in k.items() if kk != key_}
        k = {kk: v for kk, v in k.items() if not (kk in ("n", "s", "norm", "out") and v is None)}
        if a and isinstance(a[0], Rat):
            x = a[0]
            kw = dict(k)
            if len(a) > 1:
                if name.endswith("shift"):
                    kw["axes"] = a[1]
                elif name in ("fft", "ifft", "rfft", "irfft"):
                    kw["n"] = a[1]
                    if len(a) > 2:
                        kw["axis"] = a[2]
                else:
                    kw["s"] = a[1]
                    if len(a) > 2:
                        kw["axes"] = a[2]
            nm_ = name
            ax_ = kw.get("axes")
            if nm_.endswith("fftn") and isinstance(ax_, (tuple, list)) and not _is_slice(ax_) and len(ax_) == 2 and \
                    all(isinstance(q, Rat) and q.real_const() is not None for q in ax_):
                nm_ = nm_[:-1] + "2"        # the n-dimensional transform over two named axes is the two-dimensional one over them
            extra = tuple(("kw:" + kk, _axis(v) if kk in ("axes", "axis") else _vk(v)) for kk, v in sorted(kw.items()))
            return Rat.atom(Fn(nm_, (x,) + extra))
        return NotImplemented
    return h


for _n in ("fft", "ifft", "fft2", "ifft2", "rfft", "irfft", "rfft2", "irfft2", "fftshift", "ifftshift",
           "fftn", "ifftn", "rfftn", "irfftn"):
    EXT_CALLS["numpy.fft." + _n] = _fft_fn(_n)
    EXT_CALLS["scipy.fft." + _n] = _fft_fn(_n)
    EXT_CALLS["scipy.fftpack." + _n] = _fft_fn(_n)


@ext("numpy.repeat")
def _repeat(I, a, k, e, env, ctx):
    x = a[0] if a else k.get("a")
    reps = a[1] if len(a) > 1 else k.get("repeats")
    ax = a[2] if len(a) > 2 else k.get("axis")
    if isinstance(x, Rat) and isinstance(reps, Rat) and set(k) <= {"a", "repeats", "axis"}:
        return Rat.atom(Fn("repeat", (x, reps, _axis(ax))))
    return NotImplemented


@ext("numpy.fft.fftfreq")
def _fftfreq(I, a, k, e, env, ctx):
    n = a[0] if a else k.get("n")
    d = a[1] if len(a) > 1 else k.get("d", Rat.const(1))
    return Rat.atom(Fn("fftfreq", (n, d)))


@ext("numpy.fft.rfftfreq")
def _rfftfreq(I, a, k, e, env, ctx):
    n = a[0] if a else k.get("n")
    d = a[1] if len(a) > 1 else k.get("d", Rat.const(1))
    return Rat.atom(Fn("rfftfreq", (n, d)))


@ext("numpy.linalg.pinv", "scipy.linalg.pinv")
def _pinv(I, a, k, e, env, ctx):
    rc = a[1] if len(a) > 1 else k.get("rcond", k.get("rtol", None))
    extra = tuple(("kw:" + kk, _vk(v)) for kk, v in sorted(k.items()) if kk not in ("rcond", "rtol"))
    return Rat.atom(Fn("pinv", (a[0], rc) + extra))


@ext("scipy.linalg.pinvh")
def _pinvh(I, a, k, e, env, ctx):
    # pinvh(a, atol=None, rtol=None, ...): the first cut-off is ABSOLUTE (eigenvalues below atol + rtol*max are dropped);
    # with a relative cut-off only it is pinv(a, rcond) of a symmetric matrix
    atol = a[1] if len(a) > 1 else k.get("atol")
    rtol = a[2] if len(a) > 2 else k.get("rtol")
    extra = tuple(("kw:" + kk, _vk(v)) for kk, v in sorted(k.items()) if kk not in ("atol", "rtol", "check_finite", "lower"))
    if atol is None or (isinstance(atol, Rat) and atol.is_zero()):
        return Rat.atom(Fn("pinv", (a[0], rtol) + extra))
    return Rat.atom(Fn("pinv_abs", (a[0], atol, rtol) + extra))


@ext("numpy.linalg.inv", "scipy.linalg.inv")
def _inv(I, a, k, e, env, ctx):
    return Rat.atom(Fn("inv", (a[0],)))


@ext("scipy.linalg.cho_factor")
def _cho_factor(I, a, k, e, env, ctx):
    return Rat.atom(Fn("cho_factor", (a[0],)))


@ext("scipy.linalg.cho_solve")
def _cho_solve(I, a, k, e, env, ctx):
    cf, b = a[0], a[1]
    at = cf.single_atom() if isinstance(cf, Rat) else None
    if isinstance(at, Fn) and at.name == "cho_factor":
        m = at.args[0]
        bt = b.single_atom() if isinstance(b, Rat) else None
        if isinstance(bt, Fn) and bt.name == "identity":
            return Rat.atom(Fn("inv", (m,)))
        return Rat.atom(Fn("solve", (m, b)))
    return NotImplemented


@ext("numpy.linalg.solve", "scipy.linalg.solve")
def _solve(I, a, k, e, env, ctx):
    m, b = a[0], a[1]
    bt = b.single_atom() if isinstance(b, Rat) else None
    if isinstance(bt, Fn) and bt.name == "identity":
        return Rat.atom(Fn("inv", (m,)))
    return Rat.atom(Fn("solve", (m, b)))


@ext("numpy.linalg.svd", "scipy.linalg.svd")
def _svd(I, a, k, e, env, ctx):
    m = a[0]
    return (Rat.atom(Fn("svd_u", (m,))), Rat.atom(Fn("svd_w", (m,))), Rat.atom(Fn("svd_vt", (m,))))


@ext("scipy.interpolate.RectBivariateSpline", "scipy.interpolate.interp2d")
def _spline(I, a, k, e, env, ctx):
    nm = norm_text(e.func).split(".")[-1]
    return Rat.atom(Fn("spline:" + nm, tuple(a) + tuple(("kw:" + kk, _vk2(v)) for kk, v in sorted(k.items()))))


@ext("scipy.fft.next_fast_len", "scipy.fftpack.next_fast_len", "scipy.fftpack.helper.next_fast_len", "scipy.signal.next_fast_len")
def _next_fast_len(I, a, k, e, env, ctx):
    # an FFT length >= its argument (zero padding unless the argument is already 'fast'): NOT the identity
    return Rat.atom(Fn("next_fast_len", tuple(a)))


@ext("numpy.triu_indices", "numpy.tril_indices", "numpy.diag_indices", "numpy.triu_indices_from", "numpy.tril_indices_from",
     "numpy.triu", "numpy.tril", "numpy.trim_zeros", "numpy.unique", "numpy.argsort", "numpy.searchsorted", "numpy.take",
     "numpy.compress", "numpy.broadcast_to", "numpy.expand_dims", "numpy.squeeze", "numpy.atleast_2d",
     "numpy.atleast_1d", "numpy.isscalar", "numpy.ndim", "numpy.size", "numpy.issubdtype", "numpy.iscomplexobj",
     "numpy.isrealobj", "numpy.result_type")
def _named2(I, a, k, e, env, ctx):
    nm = norm_text(e.func).split(".")[-1]
    if nm in ("tril", "triu") and len(a) == 1 and set(k) == {"k"}:
        a, k = list(a) + [k["k"]], {}          # the diagonal offset by keyword is the second positional argument
    return Rat.atom(Fn(nm, tuple(_vk2(x) for x in a) + tuple(("kw:" + kk, _vk2(v)) for kk, v in sorted(k.items()))))


@ext("numpy.random.default_rng")
def _rng(I, a, k, e, env, ctx):
    seed = a[0] if a else k.get("seed")
    if isinstance(seed, Rat):
        at = seed.single_atom()
        if isinstance(at, Fn) and at.name == "rng":
            return seed         # default_rng(Generator) returns the generator itself
    I.rng_instances += 1
    return Rat.atom(Fn("rng", (_vk(seed), I.rng_instances)))


def draw_atom(I, recv, name, loc, scale, size, ctx):
    k = recv.key()
    if isinstance(size, (tuple, list)) and not _is_slice(size) and len(size) >= 3 and all(isinstance(q, Rat) for q in size) and \
            isinstance(pyconst(size[0]), int) and 2 <= pyconst(size[0]) <= 4 and loc is not None and scale is not None and \
            not maybe_array(loc) and not maybe_array(scale):
        # a Generator fills its output sequentially (row-major) and keeps nothing between calls: a stack of n planes drawn at
        # once is the n planes drawn one after the other
        planes = [draw_atom(I, recv, name, loc, scale, tuple(size[1:]), ctx) for _ in range(pyconst(size[0]))]
        return Rat.atom(Fn("array", (tuple(planes),)))
    I.draw_counts[k] = I.draw_counts.get(k, 0) + 1
    # identity of a draw: generator instance, ordinal on that generator (per loop level), distribution
    return Rat.atom(Fn("draw", (recv, name, _vk(loc), _vk(scale), _vk(size), I.draw_counts[k], ctx.loop_depth)))


_orig_call_method = Interp.call_method


def _call_method(self, recv, name, args, kwargs, e, env, ctx):
    if isinstance(recv, Rat):
        at = recv.single_atom()
        if isinstance(at, Fn) and at.name == "rng" or \
                (isinstance(at, Sym) and ("rng" in at.flags)):
            if name == "standard_normal":
                size = args[0] if args else kwargs.get("size")
                return draw_atom(self, recv, "normal", Rat.const(0), Rat.const(1), size, ctx)
            if name == "normal":
                loc = args[0] if len(args) > 0 else kwargs.get("loc", Rat.const(0))
                scale = args[1] if len(args) > 1 else kwargs.get("scale", Rat.const(1))
                size = args[2] if len(args) > 2 else kwargs.get("size")
                return draw_atom(self, recv, "normal", loc, scale, size, ctx)
            if name in ("random", "uniform", "integers", "choice", "shuffle", "permutation", "poisson"):
                return draw_atom(self, recv, name, _vk(tuple(args)), _vk(tuple(sorted(kwargs.items()))), None, ctx)
    return _orig_call_method(self, recv, name, args, kwargs, e, env, ctx)


Interp.call_method = _call_method
