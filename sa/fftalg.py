"""SHIFT engine: recognise  S_out(T(S_in(x, axes), ...), axes) * scale  in a
normal form and reason about shifts / axes / scale.

Shift facts used (numpy documentation):
  ifftshift o fftshift = fftshift o ifftshift = id      on every length
  fftshift o fftshift = id                              only on even lengths
  fftshift moves index 0 to N//2 ; ifftshift moves index N//2 to 0
  a shift with axes=None acts on all axes (batch axes too)
DFT norms (numpy default): fft unnormalised, ifft carries 1/N per axis.
"""
from .plf import Rat, Fn, Sym, find_atoms

SHIFTS = ("fftshift", "ifftshift")
TRANSFORMS = ("fft", "ifft", "fft2", "ifft2", "rfft", "irfft", "rfft2", "irfft2", "fftn", "ifftn", "userfft")
INVERSE_SHIFT = {"fftshift": "ifftshift", "ifftshift": "fftshift", None: None}
DEFAULT_AXES = {"fft": (-1,), "ifft": (-1,), "rfft": (-1,), "irfft": (-1,),
                "fft2": (-2, -1), "ifft2": (-2, -1), "rfft2": (-2, -1), "irfft2": (-2, -1)}


def _kw(atom):
    out = {}
    for a in atom.args[1:]:
        if isinstance(a, tuple) and len(a) == 2 and isinstance(a[0], str) and a[0].startswith("kw:"):
            out[a[0][3:]] = a[1]
    return out


def _axes_tuple(v):
    if v is None:
        return None
    if isinstance(v, Rat):
        c = v.const_value()
        if c is None:
            return "?"
        return (int(complex(c).real),)
    if isinstance(v, int):
        return (v,)
    if isinstance(v, (tuple, list)):
        out = []
        for x in v:
            if isinstance(x, Rat):
                c = x.const_value()
                if c is None:
                    return "?"
                out.append(int(complex(c).real))
            elif isinstance(x, int):
                out.append(x)
            else:
                return "?"
        return tuple(out)
    return "?"


class Wrapper(object):
    """decomposition of a transform wrapper's return value"""
    def __init__(self):
        self.scale = None       # Rat multiplying the transformed data
        self.s_out = None       # (name, axes) or None
        self.T = None           # transform name
        self.T_axes = None      # tuple of axes (defaults made explicit; order kept)
        self.T_kw = {}
        self.s_in = None
        self.inner = None       # Rat fed to the innermost shift/transform

    def describe(self):
        def sh(s):
            return "none" if s is None else "%s(axes=%s)" % s
        return "%s . %s(axes=%s) . %s  * (%s)" % (sh(self.s_out), self.T, self.T_axes, sh(self.s_in), self.scale.show())


def parse_wrapper(v, carries):
    """v: Rat; carries(atom)->bool tells whether an atom contains the data.
    Returns Wrapper or a string explaining why the form is not recognised."""
    st = v.single_term()
    if st is None:
        return "value is not a single product term: %s" % v.show()[:200]
    coef, mono = st
    data_atoms = [(a, e) for a, e in mono if carries(a)]
    if len(data_atoms) != 1 or data_atoms[0][1] != 1:
        return "expected exactly one factor carrying the data to the first power"
    atom = data_atoms[0][0]
    rest = tuple((a, e) for a, e in mono if a is not atom and a != atom)
    w = Wrapper()
    w.scale = Rat({rest: coef})
    cur = atom
    if isinstance(cur, Fn) and cur.name in SHIFTS:
        kw = _kw(cur)
        w.s_out = (cur.name, _axes_tuple(kw.get("axes")))
        nxt = cur.args[0]
        cur = nxt.single_atom() if isinstance(nxt, Rat) else None
        if cur is None:
            return "output shift is applied to a non-atomic expression (scale inside the shift?)"
    if not (isinstance(cur, Fn) and (cur.name in TRANSFORMS or cur.name == "callobj")):
        return "no FFT call found under the output shift: %r" % (cur,)
    if cur.name == "callobj":
        w.T = "userfft"
        inner = cur.args[1]
        w.T_axes = None
    else:
        w.T = cur.name
        w.T_kw = _kw(cur)
        ax = w.T_kw.get("axes", w.T_kw.get("axis"))
        w.T_axes = _axes_tuple(ax) if ax is not None else DEFAULT_AXES.get(cur.name)
        inner = cur.args[0]
    ia = inner.single_atom() if isinstance(inner, Rat) else None
    if isinstance(ia, Fn) and ia.name in SHIFTS:
        w.s_in = (ia.name, _axes_tuple(_kw(ia).get("axes")))
        inner = ia.args[0]
    w.inner = inner
    return w


def dft_gain_factor(T, n_sym):
    """sum|T x|^2 = factor * sum|x|^2 for numpy's default norms (Parseval)."""
    d = {"fft": 1, "ifft": -1, "fft2": 2, "ifft2": -2}
    if T not in d:
        return None
    return n_sym ** d[T]
