"""SHIFT engine: recognise  S_out(T(S_in(x, axes), ...), axes) * scale  in a
normal form and reason about shifts / axes / scale.

Shift facts used (numpy documentation):
  ifftshift o fftshift = fftshift o ifftshift = id      on every length
  fftshift o fftshift = id                              only on even lengths
  fftshift moves index 0 to N//2 ; ifftshift moves index N//2 to 0
  a shift with axes=None acts on all axes (batch axes too)
DFT norms (numpy default): fft unnormalised, ifft carries 1/N per axis.
"""
from .plf import Rat, Fn, Sym, find_atoms

SHIFTS = ("fftshift", "ifftshift")
TRANSFORMS = ("fft", "ifft", "fft2", "ifft2", "rfft", "irfft", "rfft2", "irfft2", "fftn", "ifftn", "userfft")
INVERSE_SHIFT = {"fftshift": "ifftshift", "ifftshift": "fftshift", None: None}
DEFAULT_AXES = {"fft": (-1,), "ifft": (-1,), "rfft": (-1,), "irfft": (-1,),
                "fft2": (-2, -1), "ifft2": (-2, -1), "rfft2": (-2, -1), "irfft2": (-2, -1)}


def _kw(atom):
    out = {}
    for a in atom.args[1:]:
        if isinstance(a, tuple) and len(a) == 2 and isinstance(a[0], str) and a[0].startswith("kw:"):
            out[a[0][3:]] = a[1]
    return out


def _axes_tuple(v):
    if v is None:
        return None
    if isinstance(v, Rat):
        c = v.const_value()
        if c is None:
            return "?"
        return (int(complex(c).real),)
    if isinstance(v, int):
        return (v,)
    if isinstance(v, (tuple, list)):
        out = []
        for x in v:
            if isinstance(x, Rat):
                c = x.const_value()
                if c is None:
                    return "?"
                out.append(int(complex(c).real))
            elif isinstance(x, int):
                out.append(x)
            else:
                return "?"
        return tuple(out)
    return "?"


# ------------------------------------------------------------------------------------------- rolls as shifts
from fractions import Fraction as _Fr
import math as _math


def _affine_parity(v, nsyms, parity):
    """value of an integer expression as alpha*k + beta after N := 2k + parity (k a large positive integer); None if
    the expression is not built from N, constants, + - * and floor division / int() by constants"""
    if isinstance(v, (int, float)):
        return (_Fr(0), _Fr(v).limit_denominator(1 << 20))
    if not isinstance(v, Rat):
        return None
    if not v.den_is_one():
        d = v.den
        if len(d) != 1 or list(d.keys())[0] != ():
            return None
    al, be = _Fr(0), _Fr(0)
    dconst = complex(list(v.den.values())[0]) if v.den else 1
    for m, c in v.num.items():
        c = complex(c) / dconst
        if c.imag:
            return None
        ta, tb = _Fr(0), _Fr(c.real).limit_denominator(1 << 20)
        for a, e in m:
            if e.denominator != 1 or e < 0:
                return None
            for _ in range(int(e)):
                x = _affine_atom(a, nsyms, parity)
                if x is None:
                    return None
                xa, xb = x
                if ta != 0 and xa != 0:
                    return None        # quadratic in k
                ta, tb = ta * xb + tb * xa, tb * xb
        al += ta
        be += tb
    return (al, be)


def _affine_atom(a, nsyms, parity):
    if isinstance(a, Sym):
        if a.name in nsyms:
            return (_Fr(2), _Fr(parity))
        return None
    if isinstance(a, Fn):
        if a.name == "floordiv" and len(a.args) == 2:
            x = _affine_parity(a.args[0], nsyms, parity)
            y = a.args[1].real_const() if isinstance(a.args[1], Rat) else None
            if x is None or not y or y <= 0:
                return None
            al, be = x[0] / _Fr(y).limit_denominator(1 << 20), x[1] / _Fr(y).limit_denominator(1 << 20)
            if al.denominator != 1:
                return None
            return (al, _Fr(_math.floor(be)))
        if a.name in ("int", "trunc") and len(a.args) >= 1:
            x = _affine_parity(a.args[0], nsyms, parity)
            if x is None or x[0].denominator != 1:
                return None
            al, be = x
            if al > 0 or (al == 0 and be >= 0):
                return (al, _Fr(_math.floor(be)))
            return (al, _Fr(_math.ceil(be)))       # negative values truncate towards zero
        if a.name in ("floor",) and len(a.args) >= 1:
            x = _affine_parity(a.args[0], nsyms, parity)
            if x is None or x[0].denominator != 1:
                return None
            return (x[0], _Fr(_math.floor(x[1])))
    return None


def classify_roll(shift, nsyms):
    """'fftshift' / 'ifftshift' if numpy.roll(x, shift, axis) along an axis of length N equals that shift for EVERY N,
    else a text saying what it is for even and for odd N.  (fftshift = roll by N//2, ifftshift = roll by -(N//2);
    they coincide for even N.)"""
    ev = _affine_parity(shift, nsyms, 0)
    od = _affine_parity(shift, nsyms, 1)
    if ev is None or od is None:
        return None
    (ae, be), (ao, bo) = ev, od
    if any(x.denominator != 1 for x in (ae, be, ao, bo)):
        return "roll by a non-integer amount"
    even_ok = be == 0 and int(ae) % 2 == 1                      # s = +-k (mod 2k)
    odd_f = ao == 1 + 2 * bo                                    # s = k   (mod 2k+1)
    odd_i = ao == -1 + 2 * bo                                   # s = -k  (mod 2k+1)
    if even_ok and odd_f:
        return "fftshift"
    if even_ok and odd_i:
        return "ifftshift"
    return "roll by %sk%+d for N = 2k and %sk%+d for N = 2k+1 (neither fftshift nor ifftshift on every length)" % (ae, be, ao, bo)


def _as_shift(cur, nsym_for_axis):
    """(name, axes) if the atom is a shift (fftshift / ifftshift / an equivalent numpy.roll), plus the shifted value"""
    if isinstance(cur, Fn) and cur.name in SHIFTS:
        kw = _kw(cur)
        return (cur.name, _axes_tuple(kw.get("axes"))), cur.args[0]
    if isinstance(cur, Fn) and cur.name == "roll" and len(cur.args) == 3:
        ax = _axes_tuple(cur.args[2])
        sh = cur.args[1]
        shifts = list(sh) if isinstance(sh, (tuple, list)) and not (sh and sh[0] == "slice") else [sh]
        if ax in (None, "?"):
            return ("roll over the flattened array", ax), cur.args[0]
        if len(shifts) == 1 and len(ax) > 1:
            shifts = shifts * len(ax)               # one amount for every named axis
        if len(shifts) != len(ax) or len(set(ax)) != len(ax):
            return None, None
        # numpy.roll(x, (s1, s2, ...), (a1, a2, ...)) rolls axis a_i by s_i: a shift over several axes iff it is on each of them
        kinds = [classify_roll(s_, nsym_for_axis(a_)) for s_, a_ in zip(shifts, ax)]
        if any(k_ is None for k_ in kinds):
            return None, None
        if len(set(kinds)) == 1:
            return (kinds[0], ax), cur.args[0]
        bad = [k_ for k_ in kinds if k_ not in ("fftshift", "ifftshift")]
        return ((bad[0] if bad else "fftshift along some axes and ifftshift along others (%s)" % ", ".join(kinds)), ax), cur.args[0]
    return None, None


class Wrapper(object):
    """decomposition of a transform wrapper's return value"""
    def __init__(self):
        self.scale = None       # Rat multiplying the transformed data
        self.s_out = None       # (name, axes) or None
        self.T = None           # transform name
        self.T_axes = None      # tuple of axes (defaults made explicit; order kept)
        self.T_kw = {}
        self.s_in = None
        self.inner = None       # Rat fed to the innermost shift/transform

    def describe(self):
        def sh(s):
            return "none" if s is None else "%s(axes=%s)" % s
        return "%s . %s(axes=%s) . %s  * (%s)" % (sh(self.s_out), self.T, self.T_axes, sh(self.s_in), self.scale.show())


def parse_wrapper(v, carries, nsym_for_axis=None):
    """v: Rat; carries(atom)->bool tells whether an atom contains the data.
    Returns Wrapper or a string explaining why the form is not recognised."""
    nsym_for_axis = nsym_for_axis or (lambda ax: ())
    st = v.single_term()
    if st is None:
        return "value is not a single product term: %s" % v.show()[:200]
    coef, mono = st
    data_atoms = [(a, e) for a, e in mono if carries(a)]
    if len(data_atoms) != 1 or data_atoms[0][1] != 1:
        return "expected exactly one factor carrying the data to the first power"
    atom = data_atoms[0][0]
    rest = tuple((a, e) for a, e in mono if a is not atom and a != atom)
    w = Wrapper()
    w.scale = Rat({rest: coef})
    cur = atom
    sh, nxt = _as_shift(cur, nsym_for_axis)
    if sh is not None:
        w.s_out = sh
        cur = nxt.single_atom() if isinstance(nxt, Rat) else None
        if cur is None:
            return "output shift is applied to a non-atomic expression (scale inside the shift?)"
    if not (isinstance(cur, Fn) and (cur.name in TRANSFORMS or cur.name == "callobj")):
        return "no FFT call found under the output shift: %r" % (cur,)
    if cur.name == "callobj":
        w.T = "userfft"
        inner = cur.args[1]
        w.T_axes = None
    else:
        w.T = cur.name
        w.T_kw = _kw(cur)
        ax = w.T_kw.get("axes", w.T_kw.get("axis"))
        w.T_axes = _axes_tuple(ax) if ax is not None else DEFAULT_AXES.get(cur.name)
        inner = cur.args[0]
    ia = inner.single_atom() if isinstance(inner, Rat) else None
    sh, nxt = _as_shift(ia, nsym_for_axis)
    if sh is not None:
        w.s_in = sh
        inner = nxt
    w.inner = inner
    return w


def dft_gain_factor(T, n_sym):
    """sum|T x|^2 = factor * sum|x|^2 for numpy's default norms (Parseval)."""
    d = {"fft": 1, "ifft": -1, "fft2": 2, "ifft2": -2}
    if T not in d:
        return None
    return n_sym ** d[T]
