"""Thorough tier: self-validation of a property's checker.

After the normal analysis of /repo (which writes the evidence), every seeded
variant and benign refactor of selftest/variants.py is applied - one at a time -
to a scratch copy of /repo/aotools under a fresh tempfile directory (outside
/repo and /verif, removed immediately), and the same driver is run on it in a
subprocess.  A seeded variant must make the check exit 1 and name the expected
rule; a benign one must leave it silent (exit 0).  Anything else means the
*checker* is broken: SELFTEST-FAILURE, exit 2 (never a property violation).
"""
import json
import os
import shutil
import subprocess
import sys
import tempfile
import time
from concurrent.futures import ThreadPoolExecutor

from .report import VERIF, REPO, EVID_DIR

PY = sys.executable


def _load():
    sys.path.insert(0, VERIF)
    from selftest import variants
    return variants


def _one(prop, kind, idx, rel, old, new, expect, base_patch=None):
    src_root = REPO
    path = os.path.join(src_root, rel)
    d = tempfile.mkdtemp(prefix="aoself_%s_" % prop)
    try:
        shutil.copytree(os.path.join(src_root, "aotools"), os.path.join(d, "aotools"),
                        ignore=shutil.ignore_patterns("__pycache__"))
        if base_patch:
            # the variant is an edit of a (kept, behaviour-preserving) refactoring of the tree, not of the tree itself
            ap = subprocess.run(["git", "apply", "--whitespace=nowarn", os.path.join(VERIF, base_patch)], cwd=d, capture_output=True, text=True)
            if ap.returncode:
                return dict(kind=kind, idx=idx, rel=rel, status="not-applicable", why="base patch %s no longer applies" % base_patch)
            path = os.path.join(d, rel)
        try:
            text = open(path, encoding="utf-8").read()
        except OSError:
            return dict(kind=kind, idx=idx, rel=rel, status="not-applicable", why="file missing")
        olds, news = old.split("|||"), new.split("|||")      # a variant may consist of several cooperating edits
        if len(olds) != len(news) or any(o not in text for o in olds):
            return dict(kind=kind, idx=idx, rel=rel, status="not-applicable", why="anchor text not present on the current tree")
        mod = text
        for o, n in zip(olds, news):
            mod = mod.replace(o, n, 1)
        try:
            compile(mod, rel, "exec")
        except SyntaxError as e:
            return dict(kind=kind, idx=idx, rel=rel, status="not-applicable", why="variant does not compile: %s" % e)
        with open(os.path.join(d, rel), "w", encoding="utf-8") as fh:
            fh.write(mod)
        env = dict(os.environ, AOTOOLS_REPO=d, VERIF_EVIDENCE_DIR=os.path.join(d, "evidence"), VERIF_TIER="quick")
        r = subprocess.run([PY, os.path.join(VERIF, "run.py"), prop, "--tier", "quick"], env=env, capture_output=True, text=True,
                           timeout=600)
        rules = sorted(set(l.split()[2] for l in r.stdout.splitlines() if l.startswith("FINDING ") and len(l.split()) > 2))
        out = dict(kind=kind, idx=idx, rel=rel, exit=r.returncode, rules=rules, edit=(old[:60].replace("\n", "\\n") + " -> " + new[:60].replace("\n", "\\n")))
        if kind == "seeded":
            hit = r.returncode == 1 and (expect is None or any(x.startswith(expect) or expect in x for x in rules))
            out["status"] = "detected" if hit else "MISSED"
            out["expected_rule"] = expect
        else:
            out["status"] = "silent" if r.returncode == 0 else "FALSE-ALARM"
        if out["status"] in ("MISSED", "FALSE-ALARM"):
            out["output_tail"] = r.stdout[-600:]
        return out
    finally:
        shutil.rmtree(d, ignore_errors=True)


def _one_patch(prop, name):
    """an independently produced change kept under /verif/seeded/<name>/ (patch.diff, applied to a scratch copy)"""
    sd = os.path.join(VERIF, "seeded", name)
    meta = json.load(open(os.path.join(sd, "meta.json")))
    expected = (meta.get("own_check") or {}).get("exit") == 1
    d = tempfile.mkdtemp(prefix="aoself_%s_" % prop)
    try:
        shutil.copytree(os.path.join(REPO, "aotools"), os.path.join(d, "aotools"), ignore=shutil.ignore_patterns("__pycache__"))
        ap = subprocess.run(["git", "apply", "--whitespace=nowarn", os.path.join(sd, "patch.diff")], cwd=d, capture_output=True, text=True)
        if ap.returncode:
            return dict(kind="independent", idx=name, rel=name, status="not-applicable", why="patch no longer applies to the current tree")
        env = dict(os.environ, AOTOOLS_REPO=d, VERIF_EVIDENCE_DIR=os.path.join(d, "evidence"), VERIF_TIER="quick")
        r = subprocess.run([PY, os.path.join(VERIF, "run.py"), prop, "--tier", "quick"], env=env, capture_output=True, text=True, timeout=600)
        rules = sorted(set(l.split()[2] for l in r.stdout.splitlines() if l.startswith("FINDING ") and len(l.split()) > 2))
        out = dict(kind="independent", idx=name, rel=name, exit=r.returncode, rules=rules, edit="seeded/%s/patch.diff" % name)
        if r.returncode == 1:
            out["status"] = "detected"
        elif expected:
            out["status"] = "MISSED"
            out["output_tail"] = r.stdout[-600:]
        else:
            out["status"] = "known-miss"
        return out
    finally:
        shutil.rmtree(d, ignore_errors=True)


def _one_benign(prop, name):
    """an independently produced behaviour-preserving change kept under /verif/benign/<name>/: the check must stay silent"""
    sd = os.path.join(VERIF, "benign", name)
    d = tempfile.mkdtemp(prefix="aoself_%s_" % prop)
    try:
        shutil.copytree(os.path.join(REPO, "aotools"), os.path.join(d, "aotools"), ignore=shutil.ignore_patterns("__pycache__"))
        ap = subprocess.run(["git", "apply", "--whitespace=nowarn", os.path.join(sd, "patch.diff")], cwd=d, capture_output=True, text=True)
        if ap.returncode:
            return dict(kind="benign-independent", idx=name, rel=name, status="not-applicable", why="patch no longer applies to the current tree")
        env = dict(os.environ, AOTOOLS_REPO=d, VERIF_EVIDENCE_DIR=os.path.join(d, "evidence"), VERIF_TIER="quick")
        r = subprocess.run([PY, os.path.join(VERIF, "run.py"), prop, "--tier", "quick"], env=env, capture_output=True, text=True, timeout=600)
        rules = sorted(set(l.split()[2] for l in r.stdout.splitlines() if l.startswith("FINDING ") and len(l.split()) > 2))
        out = dict(kind="benign-independent", idx=name, rel=name, exit=r.returncode, rules=rules, edit="benign/%s/patch.diff" % name)
        out["status"] = "silent" if r.returncode == 0 else "FALSE-ALARM"
        if out["status"] == "FALSE-ALARM":
            out["output_tail"] = r.stdout[-600:]
        return out
    finally:
        shutil.rmtree(d, ignore_errors=True)


def _benign_for(prop):
    """kept behaviour-preserving changes this property's check is replayed on: those written for the property and those on
    which it alarmed at first contact; changes listed in benign/OPEN.json (machinery limits not yet lifted, with the reason)
    are reported but not replayed"""
    root = os.path.join(VERIF, "benign")
    names, open_ = [], {}
    try:
        open_ = json.load(open(os.path.join(root, "OPEN.json")))
    except (OSError, ValueError):
        open_ = {}
    if os.path.isdir(root):
        for name in sorted(os.listdir(root)):
            mp = os.path.join(root, name, "meta.json")
            try:
                m = json.load(open(mp))
            except (OSError, ValueError):
                continue
            if m.get("property") == prop or prop in (m.get("alarms_at_first_contact") or {}):
                if prop in (open_.get(name, {}).get("checks") or []):
                    continue
                names.append(name)
    return names, open_


def run(prop):
    t0 = time.time()
    v = _load()
    seeded = v.SEEDED.get(prop, [])
    benign = v.BENIGN.get(prop, [])
    jobs = [("seeded", i) + tuple(x) for i, x in enumerate(seeded)] + [("benign", i) + tuple(x) + (None,) for i, x in enumerate(benign)]
    # seeded variants of a refactored tree: (base patch, file, old, new, expected rule)
    for i, (bp, rel_, old_, new_, exp_) in enumerate(getattr(v, "SEEDED_ON", {}).get(prop, [])):
        jobs.append(("seeded", 1000 + i, rel_, old_, new_, exp_, bp))
        seeded = list(seeded) + [None]
    # ... and the kept refactorings themselves must leave the check silent
    for i, (bp, rel_) in enumerate(sorted(set((x[0], x[1]) for x in getattr(v, "SEEDED_ON", {}).get(prop, [])))):
        jobs.append(("benign", 2000 + i, rel_, "", "", None, bp))
        benign = list(benign) + [None]
    seed = int(os.environ.get("VERIF_SEED", "0") or 0)
    if seed:
        import random
        random.Random(seed).shuffle(jobs)
    results = []
    indep = []
    sroot = os.path.join(VERIF, "seeded")
    if os.path.isdir(sroot):
        for name in sorted(os.listdir(sroot)):
            mp = os.path.join(sroot, name, "meta.json")
            try:
                if json.load(open(mp)).get("property") == prop:
                    indep.append(name)
            except (OSError, ValueError):
                pass
    with ThreadPoolExecutor(max_workers=min(16, max(1, len(jobs) + len(indep)))) as ex:
        futs = [ex.submit(_one, prop, *j) for j in jobs]
        futs2 = [ex.submit(_one_patch, prop, n) for n in indep]
        bnames, bopen = _benign_for(prop)
        futs3 = [ex.submit(_one_benign, prop, n) for n in bnames]
        for f in futs:
            results.append(f.result())
        ind_results = [f.result() for f in futs2]
        ben_results = [f.result() for f in futs3]
    det = [r for r in results if r["status"] == "detected"]
    missed = [r for r in results if r["status"] == "MISSED"]
    silent = [r for r in results if r["status"] == "silent"]
    alarm = [r for r in results if r["status"] == "FALSE-ALARM"]
    na = [r for r in results if r["status"] == "not-applicable"]
    ben_alarm = [r for r in ben_results if r["status"] == "FALSE-ALARM"]
    alarm = alarm + ben_alarm
    ind_det = [r for r in ind_results if r["status"] == "detected"]
    ind_missed = [r for r in ind_results if r["status"] == "MISSED"]
    missed = missed + ind_missed
    summary = {"independent_benign_changes": len(ben_results), "independent_benign_silent": len([r for r in ben_results if r["status"] == "silent"]),
               "independent_benign_open": sorted(n for n, v in bopen.items() if prop in (v.get("checks") or [])),
               "independent_changes": len(ind_results), "independent_detected": len(ind_det),
               "independent_known_misses": [r["idx"] for r in ind_results if r["status"] == "known-miss"],
               "independent_not_applicable": [r["idx"] for r in ind_results if r["status"] == "not-applicable"],
               "independent_rules": {r["idx"]: r.get("rules") for r in ind_det},"seeded_variants": len(seeded), "seeded_detected": len(det), "seeded_missed": len(missed),
               "benign_variants": len(benign), "benign_silent": len(silent), "benign_false_alarms": len(alarm),
               "not_applicable": len(na), "wall_s": round(time.time() - t0, 2),
               "samples": [{k: r[k] for k in ("kind", "rel", "edit", "status", "rules") if k in r} for r in (det[:4] + silent[:2])],
               "problems": missed + alarm,
               "not_applicable_detail": [{"rel": r["rel"], "why": r["why"]} for r in na]}
    # fold into the evidence file written by the analysis of /repo
    path = os.path.join(EVID_DIR, "%s.json" % prop)
    try:
        ev = json.load(open(path))
        ev["coverage"]["self_validation"] = summary
        ev["wall_s"] = round(ev.get("wall_s", 0) + summary["wall_s"], 3)
        json.dump(ev, open(path, "w"), indent=1, default=str)
    except Exception as e:
        print("ANALYSIS-ERROR property=%s cannot update evidence with self-validation: %s" % (prop, e))
        return 2
    print("%s self-validation: %d/%d seeded variants detected, %d/%d benign variants silent, %d not applicable; "
          "%d/%d independently produced changes detected, silent on %d/%d independently produced refactorings (%.1fs)"
          % (prop, len(det), len(seeded) - len([r for r in na if r["kind"] == "seeded"]), len(silent),
             len(benign) - len([r for r in na if r["kind"] == "benign"]), len(na), len(ind_det), len(ind_results),
             len([r for r in ben_results if r["status"] == "silent"]), len(ben_results), time.time() - t0))
    if missed or alarm:
        for r in missed:
            print("SELFTEST-FAILURE property=%s seeded variant not detected: %s :: %s (exit %s, rules %s)"
                  % (prop, r["rel"], r["edit"], r.get("exit"), r.get("rules")))
        for r in alarm:
            print("SELFTEST-FAILURE property=%s benign variant alarmed: %s :: %s (exit %s, rules %s)"
                  % (prop, r["rel"], r["edit"], r.get("exit"), r.get("rules")))
        print("ANALYSIS-ERROR property=%s the checker failed its self-validation (this is not a property violation)" % prop)
        return 2
    if seeded and not det:
        print("ANALYSIS-ERROR property=%s no seeded variant applies to the current tree" % prop)
        return 2
    return 0
