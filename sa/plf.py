"""PLF: power-law / rational normal forms.

Domain:  Rat = Poly / Poly,  Poly = sum_k c_k * prod_a a^{e_ka}
  c_k complex floats, e_ka Fractions, atoms a:
    Sym(name, flags)            parameter / opaque local
    Fn(name, args)              opaque or semi-interpreted function application
    PowA(base: Rat, e)          non-monomial base under a non-integer power
No evaluation on data, no solver: identities are decided by expansion and
cross-multiplication of these normal forms.
"""
import cmath
import math
from fractions import Fraction

RTOL = 1e-12


def to_frac(x, maxden=720):
    """Exact Fraction for ints / Fractions / floats that are small rationals."""
    if isinstance(x, Fraction):
        return x
    if isinstance(x, bool):
        return Fraction(int(x))
    if isinstance(x, int):
        return Fraction(x)
    if isinstance(x, complex):
        if x.imag != 0:
            return None
        x = x.real
    if isinstance(x, float):
        if x != x or x in (float("inf"), float("-inf")):
            return None
        f = Fraction(x).limit_denominator(maxden)
        if abs(float(f) - x) <= 1e-13 * max(1.0, abs(x)):
            return f
        return None
    return None


def _sig(x, n=11):
    if x == 0:
        return 0.0
    return float("%.*e" % (n, x))


def _ckey(c):
    c = complex(c)
    return (_sig(c.real), _sig(c.imag))


def vkey(v):
    """Canonical hashable key of any value that may appear as Fn argument."""
    if isinstance(v, Rat):
        return v.key()
    if isinstance(v, Atom):
        return v.key()
    if isinstance(v, (tuple, list)):
        return ("t",) + tuple(vkey(x) for x in v)
    if isinstance(v, Fraction):
        return ("q", v.numerator, v.denominator)
    if isinstance(v, (int, float, complex)) and not isinstance(v, bool):
        return ("c",) + _ckey(v)
    if v is None or isinstance(v, (str, bool)):
        return ("p", repr(v))
    if v is Ellipsis:
        return ("p", "...")
    return ("o", repr(v))


class Atom(object):
    __slots__ = ("_k", "_h")

    def key(self):
        return self._k

    def __eq__(self, o):
        return isinstance(o, Atom) and self._k == o._k

    def __ne__(self, o):
        return not self.__eq__(o)

    def __hash__(self):
        return self._h

    def __lt__(self, o):
        return repr(self._k) < repr(o._k)


class Sym(Atom):
    __slots__ = ("name", "flags")

    def __init__(self, name, flags=()):
        self.name = name
        self.flags = frozenset(flags)
        self._k = ("S", name)
        self._h = hash(self._k)

    def __repr__(self):
        return self.name


class Fn(Atom):
    __slots__ = ("name", "args")

    def __init__(self, name, args=()):
        self.name = name
        self.args = tuple(args)
        self._k = ("F", name) + tuple(vkey(a) for a in self.args)
        self._h = hash(self._k)

    def __repr__(self):
        return "%s(%s)" % (self.name, ", ".join(show(a) for a in self.args))


class PowA(Atom):
    __slots__ = ("base", "exp")

    def __init__(self, base, exp):
        self.base = base
        self.exp = exp
        self._k = ("P", base.key(), exp.numerator, exp.denominator)
        self._h = hash(self._k)

    def __repr__(self):
        return "(%s)" % show(self.base) if self.exp == 1 else "(%s)^%s" % (show(self.base), self.exp)


def show(v):
    if isinstance(v, Rat):
        return v.show()
    if isinstance(v, (tuple, list)):
        return "(" + ", ".join(show(x) for x in v) + ")"
    if isinstance(v, Fraction):
        return str(v)
    return repr(v)


# --------------------------------------------------------------------------
# function descriptors
# name -> list of (arg index, multiplier): args that carry homogeneity degree
HOMOG = {
    "abs": [(0, 1)], "real": [(0, 1)], "imag": [(0, 1)], "conj": [(0, 1)],
    "sum": [(0, 1)], "mean": [(0, 1)], "max": [(0, 1)], "min": [(0, 1)],
    "std": [(0, 1)], "var": [(0, 2)], "sort": [(0, 1)], "getitem": [(0, 1)],
    "fft": [(0, 1)], "ifft": [(0, 1)], "fft2": [(0, 1)], "ifft2": [(0, 1)],
    "rfft": [(0, 1)], "irfft": [(0, 1)], "rfft2": [(0, 1)], "irfft2": [(0, 1)],
    "fftshift": [(0, 1)], "ifftshift": [(0, 1)], "T": [(0, 1)],
    "flatten": [(0, 1)], "reshape": [(0, 1)], "copy": [(0, 1)], "array": [(0, 1)],
    "dot": [(0, 1), (1, 1)], "loopsum": [(0, 1)], "loopstore": [(0, 1)], "loopfinal": [(0, 1)], "userfft": [(0, 1)],
    "maximum": [(0, 1), (1, 1)],   # special: all args same degree (handled below)
    "flipud": [(0, 1)], "fliplr": [(0, 1)], "astype": [(0, 1)], "append": [(0, 1), (1, 1)],
    "setitem": [(0, 1), (2, 1)],
}
ZERO_PRESERVING = {"real", "imag", "sum", "mean", "getitem", "fft", "ifft", "fft2", "ifft2", "rfft", "irfft",
                   "rfft2", "irfft2", "fftshift", "ifftshift", "T", "flatten", "reshape", "loopsum", "abs", "std",
                   "var", "sort", "max", "min", "astype", "flipud", "fliplr"}
META_FNS = {"shape", "ndim", "len", "dtype", "size"}
SAME_DEGREE = {"maximum", "append", "setitem", "where3", "paths", "clip"}
# functions that may yield complex values from real arguments
COMPLEX_FNS = {"fft", "ifft", "fft2", "ifft2", "rfft", "rfft2", "userfft"}
ARRAY_FNS = {"arange", "grid", "indices", "linspace"}


def atom_is_real(a):
    if isinstance(a, Sym):
        return not (a.flags & {"complex", "field"})
    if isinstance(a, PowA):
        return a.base.is_real()
    if isinstance(a, Fn):
        if a.name in ("abs", "real", "imag"):
            return True
        if a.name in COMPLEX_FNS or a.name.startswith("?"):
            return False
        return all(x.is_real() for x in a.args if isinstance(x, Rat))
    return False


class Rat(object):
    """num / den, both Poly (dict mono -> complex coef); mono = sorted tuple of (atom, Fraction)."""
    __slots__ = ("num", "den", "_k")

    def __init__(self, num, den=None):
        self.num = num
        self.den = den if den is not None else {(): 1.0}
        self._k = None

    # ---- constructors
    @staticmethod
    def const(c):
        c = complex(c)
        if c == 0:
            return Rat({})
        return Rat({(): c})

    @staticmethod
    def atom(a, e=1):
        return Rat({((a, Fraction(e)),): 1.0})

    @staticmethod
    def sym(name, flags=()):
        return Rat.atom(Sym(name, flags))

    # ---- predicates
    def is_zero(self):
        return not self.num

    def den_is_one(self):
        return len(self.den) == 1 and () in self.den and abs(self.den[()] - 1) < 1e-15

    def is_const(self):
        return self.den_is_one() and (not self.num or (len(self.num) == 1 and () in self.num))

    def const_value(self):
        if not self.is_const():
            return None
        c = self.num.get((), 0.0)
        return c

    def real_const(self):
        c = self.const_value()
        if c is None:
            return None
        c = complex(c)
        if abs(c.imag) > 1e-15 * max(1.0, abs(c.real)):
            return None
        return c.real

    def as_fraction(self):
        r = self.real_const()
        if r is None:
            return None
        return to_frac(r)

    def single_term(self):
        """(coef, mono) if den==1 and exactly one term."""
        if self.den_is_one() and len(self.num) == 1:
            (m, c), = self.num.items()
            return c, m
        return None

    def single_atom(self):
        st = self.single_term()
        if st and abs(st[0] - 1) < 1e-15 and len(st[1]) == 1 and st[1][0][1] == 1:
            return st[1][0][0]
        return None

    def is_real(self):
        for p in (self.num, self.den):
            for m, c in p.items():
                if abs(complex(c).imag) > 1e-14 * max(1.0, abs(c)):
                    return False
                for a, e in m:
                    if not atom_is_real(a):
                        return False
        return True

    # ---- keys / display
    def key(self):
        if self._k is None:
            self._k = ("R", _pkey(self.num), _pkey(self.den))
        return self._k

    def __eq__(self, o):
        return isinstance(o, Rat) and self.key() == o.key()

    def __hash__(self):
        return hash(self.key())

    def show(self):
        s = _pshow(self.num)
        if not self.den_is_one():
            s = "(%s)/(%s)" % (s, _pshow(self.den))
        return s

    __repr__ = show

    # ---- arithmetic
    def __add__(self, o):
        o = as_rat(o)
        if self.den_is_one() and o.den_is_one():
            return Rat(_padd(self.num, o.num))
        if _pkey(self.den) == _pkey(o.den):
            return _norm(_padd(self.num, o.num), self.den)
        return _norm(_padd(_pmul(self.num, o.den), _pmul(o.num, self.den)), _pmul(self.den, o.den))

    __radd__ = __add__

    def __neg__(self):
        return Rat({m: -c for m, c in self.num.items()}, self.den)

    def __sub__(self, o):
        return self + (-as_rat(o))

    def __rsub__(self, o):
        return as_rat(o) + (-self)

    def __mul__(self, o):
        o = as_rat(o)
        try:
            if self.den_is_one() and o.den_is_one():
                return Rat(_pmul(self.num, o.num))
            return _norm(_pmul(self.num, o.num), _pmul(self.den, o.den))
        except _NeedRat:
            return _slow_mul(self, o)

    __rmul__ = __mul__

    def inv(self):
        if not self.num:
            raise ZeroDivisionError("division by symbolic zero")
        return _norm(dict(self.den), dict(self.num))

    def __truediv__(self, o):
        return self * as_rat(o).inv()

    def __rtruediv__(self, o):
        return as_rat(o) * self.inv()

    def __pow__(self, e):
        return rpow(self, e)

    # ---- queries
    def equals(self, o, rtol=RTOL):
        o = as_rat(o)
        d = _padd(_pmul(self.num, o.den), {m: -c for m, c in _pmul(o.num, self.den).items()}, drop=False)
        scale = 0.0
        for p in (_pmul(self.num, o.den), _pmul(o.num, self.den)):
            for c in p.values():
                scale = max(scale, abs(c))
        for c in d.values():
            if abs(c) > rtol * max(scale, 1e-300):
                return False
        return True

    def ratio_to(self, o):
        """self / o if that is a constant, else None."""
        try:
            q = self / as_rat(o)
        except ZeroDivisionError:
            return None
        q = simplify_ratio(q)
        return q.const_value()

    def atoms(self, deep=True, _seen=None):
        out = _seen if _seen is not None else set()
        for p in (self.num, self.den):
            for m in p:
                for a, e in m:
                    if a in out:
                        continue
                    out.add(a)
                    if deep:
                        if isinstance(a, Fn):
                            for x in a.args:
                                _atoms_of_val(x, out)
                        elif isinstance(a, PowA):
                            a.base.atoms(True, out)
        return out

    def has_atom(self, pred):
        return any(pred(a) for a in self.atoms())

    def depends_on(self, target):
        return target in self.atoms()

    def subst(self, f):
        """f(atom) -> Rat | None ; applied bottom-up."""
        return _subst(self, f)

    def conj(self):
        return _conj(self)

    def degree(self, target):
        return degree(self, target)

    def terms(self):
        """list of (coef, mono) when den == 1, else None."""
        if not self.den_is_one():
            return None
        return [(c, m) for m, c in self.num.items()]


def _atoms_of_val(x, out):
    if isinstance(x, Rat):
        x.atoms(True, out)
    elif isinstance(x, (tuple, list)):
        for y in x:
            _atoms_of_val(y, out)
    elif isinstance(x, Atom):
        out.add(x)


def as_rat(x):
    if isinstance(x, Rat):
        return x
    if isinstance(x, Atom):
        return Rat.atom(x)
    if isinstance(x, bool):
        return Rat.const(int(x))
    if isinstance(x, (int, float, complex, Fraction)):
        return Rat.const(complex(x) if not isinstance(x, Fraction) else float(x))
    raise TypeError("not convertible to Rat: %r" % (x,))


def _pkey(p):
    return tuple(sorted(((tuple((a.key(), e.numerator, e.denominator) for a, e in m), _ckey(c))
                         for m, c in p.items()), key=repr))


def _pshow(p):
    if not p:
        return "0"
    out = []
    for m, c in sorted(p.items(), key=lambda mc: repr(_pkey({mc[0]: 1}))):
        c = complex(c)
        cs = ("%.12g" % c.real) if abs(c.imag) < 1e-300 else \
            (("%.12gj" % c.imag) if abs(c.real) < 1e-300 else "(%.6g%+.6gj)" % (c.real, c.imag))
        ms = "*".join(("%r" % a) + ("" if e == 1 else "^%s" % e) for a, e in m)
        if not m:
            out.append(cs)
        elif cs == "1":
            out.append(ms)
        else:
            out.append(cs + "*" + ms)
    return " + ".join(out)


def _padd(p, q, drop=True):
    r = dict(p)
    for m, c in q.items():
        v = r.get(m, 0.0) + c
        r[m] = v
    if drop:
        for m in list(r):
            c = r[m]
            ref = max(abs(p.get(m, 0.0)), abs(q.get(m, 0.0)))
            if c == 0 or abs(c) <= 1e-13 * ref:
                del r[m]
    return r


def _mono_mul(m1, m2):
    """returns (coef_factor, mono)"""
    if not m1:
        return _mono_norm(dict(m2))
    if not m2:
        return _mono_norm(dict(m1))
    d = dict(m1)
    for a, e in m2:
        d[a] = d.get(a, 0) + e
    return _mono_norm(d)


def _is_merge(a):
    return isinstance(a, Fn) and a.name in ("exp", "exp10")


def _mono_norm(d):
    coef = 1.0
    extra = None
    # merge exp / exp10 atoms
    for kind in ("exp", "exp10"):
        items = [(a, e) for a, e in d.items() if isinstance(a, Fn) and a.name == kind and e != 0]
        if not items:
            continue
        if len(items) == 1 and items[0][1] == 1:
            continue
        tot = Rat({})
        for a, e in items:
            tot = tot + a.args[0] * Rat.const(float(e))
            del d[a]
        rr = mk_exp(kind, tot)
        if rr[0] == "RAT":
            extra = rr[1] if extra is None else extra * rr[1]
            at = rr[2]
        else:
            c, at = rr
            coef *= c
        if at is not None:
            d[at] = d.get(at, 0) + 1
    # abs(x)^(2k) -> (x*conj(x))^k ;  PowA(base,e1)^e with integer product -> expand
    for a in list(d):
        e = d[a]
        if e == 0:
            continue
        if isinstance(a, Fn) and a.name == "abs" and e.denominator == 1 and e % 2 == 0 and isinstance(a.args[0], Rat):
            x = a.args[0]
            sq = x * x.conj()
            del d[a]
            r = rpow(sq, e / 2)
            extra = r if extra is None else extra * r
        elif isinstance(a, PowA):
            # canonical form: the atom is the base itself (exp == 1), the power lives in the monomial exponent,
            # so that equal bases merge and integer totals expand back into the polynomial ring
            tot = a.exp * e
            if tot.denominator == 1:
                del d[a]
                r = rpow(a.base, tot)
                extra = r if extra is None else extra * r
            elif a.exp != 1:
                del d[a]
                na = PowA(a.base, Fraction(1))
                d[na] = d.get(na, 0) + tot
                if d[na] == 0:
                    del d[na]
    mono = tuple(sorted(((a, e) for a, e in d.items() if e != 0), key=lambda ae: repr(ae[0].key())))
    if extra is not None:
        return ("X", coef, mono, extra)
    return (coef, mono)


def _pmul(p, q):
    r = {}
    for m1, c1 in p.items():
        for m2, c2 in q.items():
            res = _mono_mul(m1, m2)
            if res[0] == "X":
                _, cf, mono, extra = res
                # extra is a Rat to be multiplied in; only den==1 extras are folded here
                if not extra.den_is_one():
                    raise _NeedRat()
                for m3, c3 in _pmul({mono: cf * c1 * c2}, extra.num).items():
                    r[m3] = r.get(m3, 0.0) + c3
            else:
                cf, mono = res
                r[mono] = r.get(mono, 0.0) + cf * c1 * c2
    for m in list(r):
        if r[m] == 0:
            del r[m]
    return r


class _NeedRat(Exception):
    pass


def _slow_pmul(p, q):
    out = Rat({})
    for m1, c1 in p.items():
        for m2, c2 in q.items():
            res = _mono_mul(m1, m2)
            if res[0] == "X":
                _, cf, mono, extra = res
                t = Rat({mono: cf * c1 * c2}) * extra
            else:
                t = Rat({res[1]: res[0] * c1 * c2})
            out = out + t
    return out


def _slow_mul(a, b):
    n = _slow_pmul(a.num, b.num)
    if a.den_is_one() and b.den_is_one():
        return n
    return n / _slow_pmul(a.den, b.den)


def _norm(num, den):
    if not num:
        return Rat({})
    if len(den) == 1:
        (m, c), = den.items()
        if not m:
            if abs(c - 1) < 1e-15:
                return Rat(num)
            return Rat({k: v / c for k, v in num.items()})
        inv = tuple((a, -e) for a, e in m)
        return Rat(_pmul(num, {inv: 1.0 / c}))
    # exact cancellation num == k*den
    if len(num) == len(den) and set(num) == set(den):
        ks = [num[m] / den[m] for m in den]
        if all(abs(k - ks[0]) <= 1e-13 * abs(ks[0]) for k in ks):
            return Rat.const(ks[0])
    q = _try_divide(num, den)
    if q is not None:
        return Rat(q)
    # common monomial factor of den moved to num
    lead = sorted(den.items(), key=lambda mc: repr(_pkey({mc[0]: 1})))[0][1]
    if abs(lead - 1) > 1e-15:
        num = {m: c / lead for m, c in num.items()}
        den = {m: c / lead for m, c in den.items()}
    return Rat(num, den)


def _try_divide(num, den, max_steps=400):
    """Exact multivariate (Laurent) polynomial division num/den; None if den does not divide num."""
    atoms = sorted(set(a for p in (num, den) for m in p for a, e in m), key=lambda a: repr(a.key()))
    if not atoms or len(den) < 2:
        return None
    idx = {a: i for i, a in enumerate(atoms)}

    def vec(m):
        v = [Fraction(0)] * len(atoms)
        for a, e in m:
            v[idx[a]] = e
        return tuple(v)

    def shift(p):
        vs = {vec(m): c for m, c in p.items()}
        mins = [min(v[i] for v in vs) for i in range(len(atoms))]
        return {tuple(v[i] - mins[i] for i in range(len(atoms))): c for v, c in vs.items()}, mins

    n, nmin = shift(num)
    d, dmin = shift(den)
    dl = max(d)
    dlc = d[dl]
    quo = {}
    scale = max(abs(c) for c in n.values())
    for _ in range(max_steps):
        if not n:
            break
        nl = max(n)
        if any(nl[i] < dl[i] for i in range(len(atoms))):
            return None
        qv = tuple(nl[i] - dl[i] for i in range(len(atoms)))
        qc = n[nl] / dlc
        quo[qv] = quo.get(qv, 0.0) + qc
        for dv, dc in d.items():
            t = tuple(qv[i] + dv[i] for i in range(len(atoms)))
            c = n.get(t, 0.0) - qc * dc
            if abs(c) <= 1e-12 * scale:
                n.pop(t, None)
            else:
                n[t] = c
    if n:
        return None
    out = {}
    for qv, qc in quo.items():
        d2 = {}
        for i, a in enumerate(atoms):
            e = qv[i] + nmin[i] - dmin[i]
            if e != 0:
                d2[a] = e
        res = _mono_norm(d2)
        if res[0] == "X":
            return None
        cf, mono = res
        out[mono] = out.get(mono, 0.0) + cf * qc
    return {m: c for m, c in out.items() if c != 0}


def simplify_ratio(q):
    """Try to show num == k * den by cross comparison."""
    if q.den_is_one():
        return q
    if len(q.num) == len(q.den) and set(q.num) == set(q.den):
        ks = [q.num[m] / q.den[m] for m in q.den]
        if all(abs(k - ks[0]) <= 1e-12 * abs(ks[0]) for k in ks):
            return Rat.const(ks[0])
    return q


def mk_exp(kind, arg):
    """exp(arg) -> (coef, atom|None); constants folded."""
    if arg.is_zero():
        return 1.0, None
    c = arg.const_value()
    if c is not None:
        if kind == "exp":
            return cmath.exp(c), None
        return 10.0 ** complex(c), None
    if kind == "exp10":
        # 10^(sum e_i*log10(a_i) + u) = prod a_i^e_i * 10^u
        if arg.den_is_one():
            coef = 1.0
            rest = {}
            fac = None
            for m, cf in arg.num.items():
                if len(m) == 1 and m[0][1] == 1 and isinstance(m[0][0], Fn) and m[0][0].name == "log10":
                    ef = to_frac(complex(cf).real) if abs(complex(cf).imag) < 1e-15 else None
                    if ef is not None:
                        r = rpow(m[0][0].args[0], ef)
                        fac = r if fac is None else fac * r
                        continue
                if not m:
                    coef *= 10.0 ** complex(cf)
                    continue
                rest[m] = cf
            if fac is not None or coef != 1.0:
                c2, at = mk_exp("exp10", Rat(rest)) if rest else (1.0, None)
                if fac is None:
                    return coef * c2, at
                # fac is a Rat: return it via special channel
                return ("RAT", fac * Rat.const(coef * c2), at)
    return 1.0, Fn(kind, (arg,))


def fn_exp(arg, kind="exp"):
    r = mk_exp(kind, arg)
    if r[0] == "RAT":
        _, fac, at = r
        return fac * (Rat.atom(at) if at is not None else Rat.const(1))
    c, at = r
    if at is None:
        return Rat.const(c)
    return Rat({((at, Fraction(1)),): c})


def fn_log10(x):
    """log10(c * prod a^e * exp10(u)) = log10 c + sum e*log10(a) + u"""
    c = x.const_value()
    if c is not None:
        cr = complex(c)
        if cr.imag == 0 and cr.real > 0:
            return Rat.const(math.log10(cr.real))
    st = x.single_term()
    if st is None:
        return Rat.atom(Fn("log10", (x,)))
    cf, m = st
    out = Rat.const(0)
    cr = complex(cf)
    if abs(cr.imag) > 0 or cr.real <= 0:
        return Rat.atom(Fn("log10", (x,)))
    if cr.real != 1:
        out = out + Rat.const(math.log10(cr.real))
    for a, e in m:
        if isinstance(a, Fn) and a.name == "exp10":
            out = out + a.args[0] * Rat.const(float(e))
        else:
            out = out + Rat.atom(Fn("log10", (Rat.atom(a),))) * Rat.const(float(e))
    return out


def rpow(r, e):
    """r ** e, e Fraction/int/float constant."""
    r = as_rat(r)
    if isinstance(e, Rat):
        ef = e.as_fraction()
        if ef is None:
            ec = e.real_const()
            if ec is not None:
                ef = Fraction(ec).limit_denominator(10 ** 6)
            else:
                # symbolic exponent
                b = r.real_const()
                if b is not None and abs(b - 10) < 1e-15:
                    return fn_exp(e, "exp10")
                if b is not None and abs(b - math.e) < 1e-15:
                    return fn_exp(e, "exp")
                return Rat.atom(Fn("pow", (r, e)))
        e = ef
    else:
        ef = to_frac(e)
        if ef is None:
            ef = Fraction(float(e)).limit_denominator(10 ** 6)
        e = ef
    if e == 0:
        return Rat.const(1)
    if e == 1:
        return r
    c = r.const_value()
    if c is not None:
        c = complex(c)
        if c == 0:
            if e > 0:
                return Rat.const(0)
            raise ZeroDivisionError("0 ** negative")
        if c.imag == 0 and c.real > 0:
            return Rat.const(c.real ** float(e))
        if e.denominator == 1:
            return Rat.const(c ** int(e))
        return Rat.const(c ** float(e))
    st = r.single_term()
    if st is not None:
        cf, m = st
        cf = complex(cf)
        if e.denominator == 1:
            nc = cf ** int(e)
        elif cf.imag == 0 and cf.real > 0:
            nc = cf.real ** float(e)
        else:
            nc = cf ** float(e)      # principal value
        d = {}
        for a, x in m:
            d[a] = x * e
        res = _mono_norm(d)
        if res[0] == "X":
            _, c2, mono, extra = res
            return Rat({mono: nc * c2}) * extra
        c2, mono = res
        return Rat({mono: nc * c2})
    if e.denominator == 1:
        n = int(e)
        base = r if n > 0 else r.inv()
        n = abs(n)
        if n <= 12:
            out = Rat.const(1)
            for _ in range(n):
                out = out * base
            return out
    return Rat({((PowA(r, Fraction(1)), e),): 1.0})


# --------------------------------------------------------------------------
def _map_val(x, f):
    if isinstance(x, Rat):
        return _subst(x, f)
    if isinstance(x, tuple):
        return tuple(_map_val(y, f) for y in x)
    if isinstance(x, list):
        return [_map_val(y, f) for y in x]
    return x


def rebuild_atom(a, f):
    """Atom with substituted arguments, returned as Rat."""
    if isinstance(a, Fn):
        nargs = tuple(_map_val(x, f) for x in a.args)
        return apply_fn(a.name, nargs)
    if isinstance(a, PowA):
        return rpow(_subst(a.base, f), a.exp)
    return Rat.atom(a)


def apply_fn(name, args):
    """Rebuild a function application through the simplifying constructors."""
    if name == "exp" and len(args) == 1 and isinstance(args[0], Rat):
        return fn_exp(args[0], "exp")
    if name == "exp10" and len(args) == 1 and isinstance(args[0], Rat):
        return fn_exp(args[0], "exp10")
    if name == "log10" and len(args) == 1 and isinstance(args[0], Rat):
        return fn_log10(args[0])
    if name == "abs" and len(args) == 1 and isinstance(args[0], Rat):
        return fn_abs(args[0])
    if name == "conj" and len(args) == 1 and isinstance(args[0], Rat):
        return args[0].conj()
    if name in ZERO_PRESERVING and args and isinstance(args[0], Rat) and args[0].is_zero():
        return Rat.const(0)
    return Rat.atom(Fn(name, args))


def fn_abs(x):
    c = x.const_value()
    if c is not None:
        return Rat.const(abs(c))
    st = x.single_term()
    if st is not None:
        cf, m = st
        # |c * exp(i*real) * rest|
        rest = []
        for a, e in m:
            if isinstance(a, Fn) and a.name == "exp" and isinstance(a.args[0], Rat) and \
                    (a.args[0] + a.args[0].conj()).is_zero():
                continue
            rest.append((a, e))
        if not rest:
            return Rat.const(abs(cf))
        inner = Rat({tuple(rest): 1.0})
        return Rat({((Fn("abs", (inner,)), Fraction(1)),): abs(cf)})
    return Rat.atom(Fn("abs", (x,)))


def _subst(r, f):
    def poly(p):
        out = Rat({})
        for m, c in p.items():
            t = Rat.const(c)
            for a, e in m:
                rep = f(a)
                if rep is None:
                    rep = rebuild_atom(a, f)
                t = t * rpow(as_rat(rep), e)
            out = out + t
        return out
    n = poly(r.num)
    if r.den_is_one():
        return n
    return n / poly(r.den)


def _conj_atom(a):
    if atom_is_real(a):
        return None
    if isinstance(a, Fn) and a.name == "conj":
        return a.args[0]
    if isinstance(a, Fn) and a.name == "exp":
        return fn_exp(a.args[0].conj(), "exp")
    if isinstance(a, PowA) and a.base.is_real():
        return None
    return Rat.atom(Fn("conj", (Rat.atom(a),)))


def _conj(r):
    def poly(p):
        out = Rat({})
        for m, c in p.items():
            t = Rat.const(complex(c).conjugate())
            for a, e in m:
                rep = _conj_atom(a)
                if rep is None:
                    rep = Rat.atom(a)
                t = t * rpow(rep, e)
            out = out + t
        return out
    n = poly(r.num)
    if r.den_is_one():
        return n
    return n / poly(r.den)


# --------------------------------------------------------------------------
def degree(r, target):
    """Homogeneity degree of r in atom `target` (Fraction) or None if not
    homogeneous / not decidable."""
    dn = _pdegree(r.num, target)
    if dn is None:
        return None
    if r.den_is_one():
        return dn
    dd = _pdegree(r.den, target)
    if dd is None:
        return None
    return dn - dd


def _pdegree(p, target):
    if not p:
        return Fraction(0)
    degs = set()
    for m, c in p.items():
        d = Fraction(0)
        for a, e in m:
            da = atom_degree(a, target)
            if da is None:
                return None
            d += da * e
        degs.add(d)
    if len(degs) != 1:
        return None
    return degs.pop()


def val_degree(v, target):
    if isinstance(v, Rat):
        return degree(v, target)
    if isinstance(v, (tuple, list)):
        ds = set(val_degree(x, target) for x in v)
        if len(ds) == 1:
            return ds.pop()
        return None
    return Fraction(0)


def val_depends(v, target):
    if isinstance(v, Rat):
        return v.depends_on(target)
    if isinstance(v, (tuple, list)):
        return any(val_depends(x, target) for x in v)
    if isinstance(v, Atom):
        return v == target
    return False


def atom_degree(a, target):
    if a == target:
        return Fraction(1)
    if isinstance(a, Sym):
        return Fraction(0)
    if isinstance(a, PowA):
        d = degree(a.base, target)
        if d is None:
            return None
        return d * a.exp
    if isinstance(a, Fn):
        if not any(val_depends(x, target) for x in a.args):
            return Fraction(0)
        if a.name in META_FNS:
            return Fraction(0)          # shape / rank / dtype do not depend on the values
        if a.name == "cmp":
            # scale-invariant iff both sides have the same degree (or one side is 0)
            da, db = val_degree(a.args[1], target), val_degree(a.args[2], target)
            if da is None or db is None:
                return None
            za = isinstance(a.args[1], Rat) and a.args[1].is_zero()
            zb = isinstance(a.args[2], Rat) and a.args[2].is_zero()
            if da == db or za or zb:
                return Fraction(0)
            return None
        if a.name in ("where3",):
            dc = val_degree(a.args[0], target)
            d1, d2 = val_degree(a.args[1], target), val_degree(a.args[2], target)
            if dc != 0 or d1 is None or d2 is None:
                return None
            z1 = isinstance(a.args[1], Rat) and a.args[1].is_zero()
            z2 = isinstance(a.args[2], Rat) and a.args[2].is_zero()
            if z1:
                return d2
            if z2 or d1 == d2:
                return d1
            return None
        if a.name in SAME_DEGREE:
            ds = []
            for i, x in enumerate(a.args):
                if a.name == "setitem" and i == 1:
                    if val_degree(x, target) != 0:
                        return None
                    continue
                if isinstance(x, Rat) and x.is_zero():
                    continue
                d = val_degree(x, target)
                if d is None:
                    return None
                ds.append(d)
            if len(set(ds)) == 1:
                return ds[0]
            return None
        if a.name in HOMOG:
            tot = Fraction(0)
            carried = set(i for i, _ in HOMOG[a.name])
            for i, x in enumerate(a.args):
                if i in carried:
                    continue
                if a.name in ("loopsum", "loopstore", "loopfinal") and i >= 1:
                    continue        # the bound variable and the index set it runs over carry no degree
                dv = val_degree(x, target)
                if dv != 0 and val_depends(x, target):
                    return None
            for i, mult in HOMOG[a.name]:
                if i >= len(a.args):
                    continue
                d = val_degree(a.args[i], target)
                if d is None:
                    return None
                tot += d * mult
            return tot
        # unknown function depending on target: only degree-0 if every arg is degree 0
        for x in a.args:
            if val_depends(x, target):
                d = val_degree(x, target)
                if d != 0:
                    return None
        # a function of scale-invariant arguments is scale-invariant
        return Fraction(0)
    return None


def find_atoms(v, pred, out=None):
    out = [] if out is None else out
    s = set()
    _atoms_of_val(v, s)
    for a in s:
        if pred(a):
            out.append(a)
    return out
