"""Findings, known-findings filter, evidence writer, exit protocol.

Three-valued outcome per check run:
  exit 0  property held on everything analysed (KNOWN-FINDING lines allowed)
  exit 1  at least one finding not listed in known_findings.json -> VIOLATION line
  exit 2  ANALYSIS-ERROR: anchor vanished, idiom unrecognised, floor not met, crash
"""
import json
import os
import sys
import time
import traceback

VERIF = os.path.dirname(os.path.dirname(os.path.abspath(__file__)))
REPO = os.environ.get("AOTOOLS_REPO", "/repo")
EVID_DIR = os.environ.get("VERIF_EVIDENCE_DIR") or os.path.join(VERIF, "evidence")
KNOWN_FILE = os.path.join(VERIF, "known_findings.json")


class AnalysisError(Exception):
    """The analyser cannot decide: anchor vanished / idiom unrecognised / floor."""


class Finding(object):
    def __init__(self, prop, rule, key, message, where="", detail=None):
        self.prop = prop
        self.rule = rule
        self.key = key          # construct key: module:qualname:<slot text>, no line numbers
        self.message = message
        self.where = where      # file:line (diagnostic only, not part of identity)
        self.detail = detail or {}

    def ident(self):
        return (self.prop, self.rule, self.key)

    def as_dict(self):
        return {"property": self.prop, "rule": self.rule, "key": self.key,
                "message": self.message, "where": self.where, "detail": self.detail}


def load_known():
    if not os.path.exists(KNOWN_FILE):
        return {"known": [], "fixed": []}
    with open(KNOWN_FILE) as fh:
        return json.load(fh)


class Report(object):
    """Collects obligations, findings and samples for one property run."""

    def __init__(self, prop, level, tier="quick"):
        self.prop = prop
        self.level = level
        self.tier = tier
        self.seed = int(os.environ.get("VERIF_SEED", "0") or 0)
        self.t0 = time.time()
        self.findings = []
        self.unrecognised = []      # list of (rule, key, message, where)
        self.obligations = []       # list of dict(rule, key, status, note)
        self.samples = []
        self.notes = []
        self.assumptions = []
        self.trusted_base = ["CPython ast module (parsing of /repo sources)"]
        self.explanation = ""
        self.rule_text = ""
        self.extra = {}
        self.files_analysed = set()
        self.functions_analysed = set()

    # -- recording ---------------------------------------------------------
    def ok(self, rule, key, note="", nontrivial=True):
        self.obligations.append({"rule": rule, "key": key, "status": "holds",
                                 "note": note, "nontrivial": bool(nontrivial)})

    def violation(self, rule, key, message, where="", detail=None):
        self.obligations.append({"rule": rule, "key": key, "status": "violated",
                                 "note": message, "nontrivial": True})
        self.findings.append(Finding(self.prop, rule, key, message, where, detail))

    def unknown(self, rule, key, message, where=""):
        self.obligations.append({"rule": rule, "key": key, "status": "unrecognised",
                                 "note": message, "nontrivial": True})
        self.unrecognised.append((rule, key, message, where))

    def check(self, cond, rule, key, message, where="", note="", detail=None):
        if cond:
            self.ok(rule, key, note)
        else:
            self.violation(rule, key, message, where, detail)
        return cond

    def sample(self, obj):
        if len(self.samples) < 40:
            self.samples.append(obj)

    def note(self, text):
        self.notes.append(text)

    def floor(self, what, got, need):
        """Instance floor: a rule matching fewer sites than confirmed by hand
        would pass vacuously -> analysis error."""
        if got < need:
            if self.findings:
                # a violating construct has already been named: the missing instances are its consequence
                self.note("instance floor not met for %s (%d < %d) after a violation was found" % (what, got, need))
                return
            raise AnalysisError("instance floor not met for %s: found %d, need >= %d"
                                % (what, got, need))
        self.extra.setdefault("floors", {})[what] = {"found": got, "floor": need}

    # -- finishing ---------------------------------------------------------
    def finish(self):
        known = load_known()
        known_idx = {}
        for k in known.get("known", []):
            known_idx[(k["property"], k["rule"], k["key"])] = k
        new, listed = [], []
        for f in self.findings:
            if f.ident() in known_idx:
                listed.append(f)
            else:
                new.append(f)
        seen = set(f.ident() for f in listed)
        stale = [k for ident, k in known_idx.items()
                 if ident[0] == self.prop and ident not in seen]

        for f in listed:
            print("KNOWN-FINDING: property=%s %s %s -- %s"
                  % (self.prop, f.rule, f.key, known_idx[f.ident()].get("what", f.message)))
        for k in stale:
            print("STALE-KNOWN-FINDING: property=%s %s %s (listed but no longer derived)"
                  % (self.prop, k["rule"], k["key"]))

        status = 0
        replay = None
        if new:
            status = 1
            vdir = os.path.join(EVID_DIR, "violations")
            os.makedirs(vdir, exist_ok=True)
            replay = os.path.join(vdir, "%s.json" % self.prop)
            with open(replay, "w") as fh:
                json.dump({"property": self.prop,
                           "violations": [f.as_dict() for f in new]}, fh, indent=1,
                          default=str)
            for f in new:
                print("FINDING %s %s [%s] %s :: %s" % (self.prop, f.rule, f.where, f.key, f.message))
            print("VIOLATION property=%s replay=%s" % (self.prop, replay))
        if self.unrecognised and status == 0:
            status = 2
        for (rule, key, msg, where) in self.unrecognised:
            print("ANALYSIS-ERROR property=%s %s [%s] %s :: %s" % (self.prop, rule, where, key, msg))

        self.write_evidence(len(new), listed, stale)
        n_ob = len(self.obligations)
        n_ok = sum(1 for o in self.obligations if o["status"] == "holds")
        print("%s: %d obligations, %d hold, %d known findings, %d new violations, %d unrecognised (%.2fs)"
              % (self.prop, n_ob, n_ok, len(listed), len(new), len(self.unrecognised),
                 time.time() - self.t0))
        return status

    def write_evidence(self, n_new, listed, stale):
        os.makedirs(EVID_DIR, exist_ok=True)
        n_ob = len(self.obligations)
        listed_ids = set((f.rule, f.key) for f in listed)
        discharged = sum(1 for o in self.obligations
                         if o["status"] == "holds" or (o["rule"], o["key"]) in listed_ids)
        distinct = len(set((o["rule"], o["key"]) for o in self.obligations if o["nontrivial"]))
        per_rule = {}
        for o in self.obligations:
            d = per_rule.setdefault(o["rule"], {"holds": 0, "violated": 0, "unrecognised": 0})
            d[o["status"]] += 1
        cov = {
            "obligations": n_ob,
            "discharged": discharged,
            "evaluations": max(n_ob, 1),
            "distinct_nontrivial": max(distinct, 0),
            "rule": self.rule_text or "one obligation per (rule, construct) instance re-derived from /repo on this run",
            "samples": self.samples[:40] or [o for o in self.obligations[:5]],
            "checker_cmd": "/venv/bin/python run.py %s --tier %s" % (self.prop, self.tier),
            "trusted_base": self.trusted_base,
            "explanation": self.explanation,
            "exhaustive": True,
            "per_rule": per_rule,
            "files_analysed": sorted(self.files_analysed),
            "functions_analysed": len(self.functions_analysed),
            "known_findings_seen": [{"rule": f.rule, "key": f.key} for f in listed],
            "stale_known_findings": [{"rule": k["rule"], "key": k["key"]} for k in stale],
            "notes": self.notes,
        }
        cov.update(self.extra)
        ev = {
            "property_id": self.prop,
            "tier": self.tier,
            "seed": self.seed,
            "level": self.level,
            "coverage": cov,
            "assumptions": self.assumptions,
            "wall_s": round(time.time() - self.t0, 3),
            "violations": n_new,
        }
        with open(os.path.join(EVID_DIR, "%s.json" % self.prop), "w") as fh:
            json.dump(ev, fh, indent=1, default=str)


def run_driver(prop, fn, level, tier):
    """Run a property driver with the exit protocol; exceptions -> exit 2."""
    rep = Report(prop, level, tier)
    try:
        fn(rep)
        return rep.finish()
    except AnalysisError as e:
        print("ANALYSIS-ERROR property=%s %s" % (prop, e))
        try:
            rep.unrecognised.append(("analysis", "driver", str(e), ""))
            rep.write_evidence(0, [], [])
        except Exception:
            pass
        return 2
    except Exception:
        print("ANALYSIS-ERROR property=%s internal exception" % prop)
        traceback.print_exc(file=sys.stdout)
        return 2
