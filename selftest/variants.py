"""Seeded-defect and benign-refactor corpus for the thorough tier (self-validation
of the checkers).  Each variant is a textual edit of the *current* /repo sources,
located by anchor text (never by line number), applied to a scratch copy outside
/repo and /verif.  A variant whose anchor text is no longer present is counted as
"not applicable", not as a miss.

SEEDED[prop] = [(relpath, old, new, expected rule prefix or None), ...]
    the check must exit 1 and (if given) report a finding of that rule
BENIGN[prop] = [(relpath, old, new), ...]
    behaviour-preserving edits: the check must stay silent (exit 0)
"""
SC = "aotools/turbulence/slopecovariance.py"
IPS = "aotools/turbulence/infinitephasescreen.py"
PS = "aotools/turbulence/phasescreen.py"
FT = "aotools/fouriertransform.py"
OP = "aotools/opticalpropagation.py"
ZER = "aotools/functions/zernike.py"
PUP = "aotools/functions/pupil.py"
WFS = "aotools/wfs/wfslib.py"
CEN = "aotools/image_processing/centroiders.py"
CON = "aotools/image_processing/contrast.py"
PSF = "aotools/image_processing/psf.py"
INT = "aotools/interpolation.py"
ATM = "aotools/turbulence/atmos_conversions.py"
AST = "aotools/astronomy/_astronomy.py"
PC = "aotools/turbulence/profile_compression.py"
TPS = "aotools/turbulence/temporal_ps.py"
TURB = "aotools/turbulence/turb.py"
KL = "aotools/functions/karhunenLoeve.py"

SEEDED = {}
BENIGN = {}

SEEDED["C01"] = [
    (SC, "cov_mat_coord_x1 = subap_ni * 2\n", "cov_mat_coord_x1 = subap_ni\n", "tile"),
    (SC, "] += cov_xx * r0_scale", "] += cov_yy * r0_scale", "kind"),
    (SC, "] += cov_xx * r0_scale", "] += numpy.flipud(cov_xx) * r0_scale", "noperm"),
    (SC, "cov_mat_coord_y1: cov_mat_coord_y2] += cov_xy * r0_scale", "cov_mat_coord_y1: cov_mat_coord_y2] += cov_xy.T * r0_scale", "noperm"),
    (SC, "] += cov_xy * r0_scale", "] += numpy.fliplr(numpy.flipud(cov_xy)) * r0_scale", "noperm"),
    (SC, "x3 = seperation[..., 0] + (subap2_diam + subap1_diam) * 0.5", "x3 = seperation[..., 0] - (subap2_diam + subap1_diam) * 0.5", "stencil"),
    (SC, "Cxx = (-2 * structure_function_vk(r1, r0, L0)", "Cxx = (-1 * structure_function_vk(r1, r0, L0)", "stencil"),
    (SC, "    x1 = seperation[..., 0] + subap1_diam * 0.5\n    y1 = seperation[..., 1] - subap2_diam * 0.5",
     "    x1 = seperation[..., 0] + subap2_diam * 0.5\n    y1 = seperation[..., 1] - subap1_diam * 0.5", "stencil"),
    (SC, "/ (8 * numpy.pi**2 * self.subap_layer_diameters[layer_n][wfs_i]", "/ (4 * numpy.pi**2 * self.subap_layer_diameters[layer_n][wfs_i]", "scale"),
    (SC, "r0_scale = ((self.wfs_wavelengths[wfs_i] * self.wfs_wavelengths[wfs_j])", "r0_scale = ((self.wfs_wavelengths[wfs_i] * self.wfs_wavelengths[wfs_i])", "scale"),
    (SC, "D_vk = (    0.17253 * (L0 / (r0)) ** (5. / 3.)", "D_vk = (    0.17253 * (L0 / (r0)) ** (3. / 5.)", "r0deg"),
    (SC, "] += cov_yy * r0_scale", "] = cov_yy * r0_scale", "layers"),
    (SC, "scale_factor = (1 - layer_altitude/self.gs_altitudes[wfs_n])", "scale_factor = (1 + layer_altitude/self.gs_altitudes[wfs_n])", "project"),
    (SC, "numpy.pi/180/3600", "numpy.pi/180/360", "project"),
    (SC, "for wfs_j in range(wfs_i+1):", "for wfs_j in range(self.n_wfs):", "lower"),
    (SC, "wfs_subap_diameters.append(self.subap_diameters[wfs_n] * scale_factor)", "wfs_subap_diameters.append(self.subap_diameters[wfs_n])", "project"),
    (SC, "xy_separations[i, j] = (x2-x1), (y2-y1)", "xy_separations[i, j] = (x1-x2), (y2-y1)", "stencil.separations"),
    (SC, "xy_separations[i, j] = (x2-x1), (y2-y1)", "xy_separations[j, i] = (x2-x1), (y2-y1)", "stencil.separations"),
    (SC, "self.subap_layer_positions[layer_n][wfs_i], self.subap_layer_positions[layer_n][wfs_j],",
     "self.subap_layer_positions[layer_n][wfs_j], self.subap_layer_positions[layer_n][wfs_i],", "pair-arguments"),
    (SC, "wfs_subap_pos += self.subap_diameters[wfs_n]/2.", "wfs_subap_pos -= self.subap_diameters[wfs_n]/2.", "project.centres"),
    (SC, 'cov_mat.T.view("int32")).view("float32")', 'cov_mat.view("int32")).view("float32")', "lower.mirror"),
    (SC, "positions = self.subap_positions[wfs_n].copy()", "positions = self.subap_positions[wfs_n]", "project.copies"),
]
BENIGN["C01"] = [
    (SC, "subap_ni = self.n_subaps[:wfs_i].sum()\n                    subap_nj = self.n_subaps[:wfs_j].sum()\n\n                    # Coordinates of the XX covariance\n                    cov_mat_coord_x1 = subap_ni * 2\n                    cov_mat_coord_x2 = subap_ni * 2 + self.n_subaps[wfs_i]",
     "subap_ni = self.n_subaps[:wfs_i].sum()\n                    subap_nj = self.n_subaps[:wfs_j].sum()\n                    n_i = self.n_subaps[wfs_i]\n\n                    # Coordinates of the XX covariance\n                    cov_mat_coord_x1 = 2 * subap_ni\n                    cov_mat_coord_x2 = n_i + 2 * subap_ni"),
    (SC, "    x2 = seperation[..., 0] - (subap2_diam + subap1_diam) * 0.5\n    r2 = numpy.sqrt(x2**2 + seperation[..., 1]**2)",
     "    half_sum = 0.5 * (subap1_diam + subap2_diam)\n    x2 = seperation[..., 0] - half_sum\n    r2 = numpy.sqrt(seperation[..., 1]**2 + x2**2)"),
]

SEEDED["C02"] = [
    (SC, "cov_onoff = covariance_matrix[:2 * n_onaxis_subaps, 2 * n_onaxis_subaps:]", "cov_onoff = covariance_matrix[:n_onaxis_subaps, 2 * n_onaxis_subaps:]", "S1"),
    (SC, "cov_onoff = covariance_matrix[:2 * n_onaxis_subaps, 2 * n_onaxis_subaps:]", "cov_onoff = covariance_matrix[2 * n_onaxis_subaps:, :2 * n_onaxis_subaps]", "S1"),
    (SC, "icov_offoff = numpy.linalg.pinv(cov_offoff, rcond=svd_conditioning)", "icov_offoff = numpy.linalg.pinv(cov_offoff)", "S1"),
    (SC, "icov_offoff = numpy.linalg.pinv(cov_offoff, rcond=svd_conditioning)", "icov_offoff = numpy.linalg.pinv(covariance_matrix, rcond=svd_conditioning)", "S1"),
    (SC, "self.covariance_matrix, self.n_subaps[0], svd_conditioning)", "self.covariance_matrix, self.n_subaps[1], svd_conditioning)", "S2"),
    (SC, "tomo_recon = cov_onoff.dot(icov_offoff)", "tomo_recon = icov_offoff.dot(cov_onoff).T", "S1"),
]
BENIGN["C02"] = [
    (SC, "tomo_recon = cov_onoff.dot(icov_offoff)", "tomo_recon = cov_onoff @ icov_offoff"),
    (SC, "tomo_recon = cov_onoff.dot(icov_offoff)", "tomo_recon = icov_offoff.dot(cov_onoff.T).T"),
    (SC, "tomo_recon = cov_onoff.dot(icov_offoff)", "tomo_recon = numpy.dot(cov_onoff, icov_offoff)"),
]

SEEDED["C03"] = [
    (SC, "self.cov_mats = pool.map(wfs_covariance_mpwrap, args)", "self.cov_mats = list(pool.imap_unordered(wfs_covariance_mpwrap, args))", "O1"),
    (SC, "                            ] += cov_yy * r0_scale\n\n                    thread_n += 1", "                            ] += cov_yy * r0_scale\n\n                thread_n += 1", "O2"),
    (SC, "            thread_n = 0\n            for wfs_i in range(self.n_wfs):", "            for wfs_i in range(self.n_wfs):", "O2"),
    (SC, "            thread_n = 0\n            for wfs_i in range(self.n_wfs):\n                for wfs_j in range(wfs_i+1):",
     "            thread_n = 0\n            for wfs_j in range(self.n_wfs):\n                for wfs_i in range(wfs_j, self.n_wfs):", "O2"),
    (SC, "positions = self.subap_positions[wfs_n].copy()", "positions = self.subap_positions[wfs_n]", "O7"),
    (SC, '        self.covariance_matrix = numpy.zeros((2 * self.total_subaps, 2 * self.total_subaps), dtype="float32")\n        for layer_n', "        for layer_n", "O6"),
    (SC, "                            self.subap_layer_diameters[layer_n][wfs_i], self.subap_layer_diameters[layer_n][wfs_j],\n                            self.layer_r0s[layer_n], self.layer_L0s[layer_n]))",
     "                            self.subap_layer_diameters[layer_n][wfs_j], self.subap_layer_diameters[layer_n][wfs_i],\n                            self.layer_r0s[layer_n], self.layer_L0s[layer_n]))", "O4"),
    (SC, "def wfs_covariance_mpwrap(args):\n    return wfs_covariance(*args)",
     "_CACHE = {}\ndef wfs_covariance_mpwrap(args):\n    _CACHE[len(_CACHE)] = 1\n    return wfs_covariance(*args)", "O3"),
    (SC, "        self.covariance_matrix = mirror_covariance_matrix(self.covariance_matrix)",
     "        self.covariance_matrix = mirror_covariance_matrix(self.covariance_matrix)\n        self.layer_r0s *= 1", "O7"),
    (SC, "                    thread_n += 1", "                    if wfs_i != wfs_j:\n                        thread_n += 1", "O2"),
]
BENIGN["C03"] = [
    (SC, "        pool = multiprocessing.Pool(threads)\n", "        pool = multiprocessing.Pool(processes=threads)\n"),
]

SEEDED["C04"] = [
    (IPS, "self.X_coords[:, 0] = -1", "self.X_coords[:, 0] = 0", "K8"),
    (IPS, "        self.cov_mat_zz = self.cov_mat[:self.n_stencils, :self.n_stencils]\n        self.cov_mat_xx = self.cov_mat[self.n_stencils:, self.n_stencils:]",
     "        self.cov_mat_xx = self.cov_mat[:self.n_stencils, :self.n_stencils]\n        self.cov_mat_zz = self.cov_mat[self.n_stencils:, self.n_stencils:]", "K1"),
    (IPS, "self.A_mat = self.cov_mat_xz.dot(inv_cov_zz)", "self.A_mat = self.cov_mat_zx.dot(inv_cov_zz)", "K3"),
    (IPS, "BBt = self.cov_mat_xx - self.A_mat.dot(self.cov_mat_zx)", "BBt = self.cov_mat_xx + self.A_mat.dot(self.cov_mat_zx)", "K5"),
    (IPS, "numpy.fill_diagonal(L_mat, numpy.sqrt(W))", "numpy.fill_diagonal(L_mat, W)", "K5"),
    (IPS, "+ self.B_mat.dot(random_data) + reference_value", "+ self.B_mat.dot(random_data)", "K7"),
    (IPS, "+ self.B_mat.dot(random_data) + reference_value", "+ self.B_mat.dot(random_data) + 2*reference_value", "K7"),
    (IPS, "stencil_data = self._scrn[(self.stencil_coords[:, 0], self.stencil_coords[:, 1])]\n        new_row = self.A_mat.dot(stencil_data) + self.B_mat.dot(random_data)",
     "stencil_data = self._scrn[(self.stencil_coords[:, 1], self.stencil_coords[:, 0])]\n        new_row = self.A_mat.dot(stencil_data) + self.B_mat.dot(random_data)", "K6"),
    (IPS, "self.X_positions = self.X_coords * self.pixel_scale", "self.X_positions = self.X_coords", "K8"),
    (IPS, "positions = numpy.append(self.stencil_positions, self.X_positions, axis=0)", "positions = numpy.append(self.X_positions, self.stencil_positions, axis=0)", "K2"),
    (IPS, "            delta_y = y2 - y1\n\n            delta_r = numpy.sqrt(delta_x ** 2 + delta_y ** 2)\n\n            seperations[i, j] = delta_r",
     "            delta_y = y2 - x1\n\n            delta_r = numpy.sqrt(delta_x ** 2 + delta_y ** 2)\n\n            seperations[i, j] = delta_r", "K9"),
    (IPS, "turb.phase_covariance(self.seperations, self.r0, self.L0)", "turb.phase_covariance(self.seperations, self.L0, self.r0)", "K10"),
    (IPS, "        self.makeAMatrix()\n        self.makeBMatrix()\n        self.make_initial_screen()\n\n\n    def set_stencil_coords",
     "        self.makeBMatrix()\n        self.makeAMatrix()\n        self.make_initial_screen()\n\n\n    def set_stencil_coords", "K12"),
    (IPS, "self.stencil[:self.n_columns] = 1", "self.stencil[:, :self.n_columns] = 1", "K11"),
]
BENIGN["C04"] = [
    (IPS, "            inv_cov_zz = linalg.cho_solve(cf, numpy.identity(self.cov_mat_zz.shape[0]))", "            inv_cov_zz = numpy.linalg.inv(self.cov_mat_zz)"),
]

SEEDED["C05"] = [
    (IPS, "numpy.append(new_row, self._scrn, axis=0)", "numpy.append(self._scrn, new_row, axis=0)", "S1"),
    (IPS, "numpy.append(new_row, self._scrn, axis=0)[:self.stencil_length, :self.nx_size]", "numpy.append(new_row, self._scrn, axis=0)[:, :self.nx_size]", "S1"),
    (IPS, "numpy.append(new_row, self._scrn, axis=0)", "numpy.append(new_row, self._scrn, axis=1)", "S1"),
    (IPS, "return self._scrn[:self.requested_nx_size, :self.requested_nx_size]", "return self._scrn[:self.nx_size, :self.nx_size]", "S2"),
    (IPS, "        return str(self.scrn)", "        self._R.normal(0, 1)\n        return str(self.scrn)", "S3"),
    (IPS, "        reference_value = self._scrn[self.reference_coord]", "        reference_value = self._scrn[self.reference_coord] + self._R.normal(0, 1e-12)", "S5"),
    (IPS, "        return self._scrn[:self.requested_nx_size, :self.requested_nx_size]",
     "        self._scrn = self._scrn.copy()\n        return self._scrn[:self.requested_nx_size, :self.requested_nx_size]", "S"),
    (IPS, "self.stencil_length = stencil_length_factor * self.nx_size", "self.stencil_length = stencil_length_factor + self.nx_size", "S6"),
    (IPS, "    while (2 ** n + 1) < nx_size:", "    while (2 ** n + 1) < nx_size - 1:", "S6"),
    (IPS, "        new_row = self.get_new_row()\n\n        self._scrn", "        new_row = self.get_new_row()\n        new_row = self.get_new_row()\n\n        self._scrn", "S5"),
]
BENIGN["C05"] = [
    (IPS, "self._scrn = numpy.append(new_row, self._scrn, axis=0)[:self.stencil_length, :self.nx_size]",
     "self._scrn = numpy.vstack((new_row, self._scrn))[:self.stencil_length, :self.nx_size]"),
    (IPS, "self._scrn = numpy.append(new_row, self._scrn, axis=0)[:self.stencil_length, :self.nx_size]",
     "self._scrn = numpy.concatenate((new_row, self._scrn), axis=0)[:self.stencil_length, :self.nx_size]"),
]

SEEDED["C06"] = [
    (PS, "cn = ((R.normal(size=(N, N))+1j * R.normal(size=(N, N)))", "cn = ((numpy.random.normal(size=(N, N))+1j * R.normal(size=(N, N)))", "Q1"),
    (PS, "+ 1j*R.normal(size=(3,3)) )", "+ 1j*numpy.random.normal(size=(3,3)) )", "Q1"),
    (PS, "    R = numpy.random.default_rng(seed)\n\n    del_f", "    R = numpy.random.default_rng()\n\n    del_f", "Q2"),
    (PS, "phs_hi = ft_phase_screen(r0, N, delta, L0, l0, FFT, seed=seed)", "phs_hi = ft_phase_screen(r0, N, delta, L0, l0, FFT)", "Q6"),
    (PS, "__all__ = [", "_R = numpy.random.default_rng(0)\n__all__ = [", "Q4"),
    (PS, "    R = numpy.random.default_rng(seed)\n\n    D = N * delta", "    numpy.random.seed(seed)\n    R = numpy.random.default_rng(seed)\n\n    D = N * delta", "Q1"),
    (PS, "def ft_phase_screen(r0, N, delta, L0, l0, FFT=None, seed=None):",
     "import functools\n@functools.lru_cache(maxsize=None)\ndef ft_phase_screen(r0, N, delta, L0, l0, FFT=None, seed=None):", "Q7"),
    (IPS, "self.r0, self.stencil_length, self.pixel_scale, self.L0, 1e-10, seed=self._R", "self.r0, self.stencil_length, self.pixel_scale, self.L0, 1e-10, seed=None", "Q8"),
    (IPS, "self._R = numpy.random.default_rng(self.random_seed)", "self._R = numpy.random.default_rng(12345)", "Q2"),
    (PS, "    R = numpy.random.default_rng(seed)\n\n    del_f", "    R = numpy.random.default_rng(seed if seed is not None else int(time.time()))\n\n    del_f", "Q"),
]
BENIGN["C06"] = [
    (PS, "    R = numpy.random.default_rng(seed)\n\n    del_f", "    rng = numpy.random.default_rng(seed)\n    R = rng\n\n    del_f"),
]

SEEDED["C07"] = [
    (PS, "11./6)))", "11./3)))", "P"),
    (PS, "0.023*r0**(-5./3.)", "0.23*r0**(-5./3.)", "P"),
    (PS, "* numpy.sqrt(PSD_phi)*del_f)", "* PSD_phi*del_f)", "P"),
    (PS, "PSD_phi[int(N/2), int(N/2)] = 0", "PSD_phi[int(N/2)-1, int(N/2)-1] = 0", "P"),
    (PS, "del_f = 1./(N*delta)", "del_f = 1./(delta)", "P"),
    (PS, "phs = ift2(cn, 1, FFT).real", "phs = ift2(cn, del_f, FFT).real", "P"),
    (PS, "PSD_phi[1,1] = 0", "PSD_phi[0,0] = 0", "P0"),
    (PS, "del_f = 1 / (3**p*D)", "del_f = 1 / (3*p*D)", "P0"),
    (PS, "phs_lo = phs_lo.real - phs_lo.real.mean()", "phs_lo = phs_lo.real", "P0"),
    (PS, "1j*R.normal(size=(3,3))", "1j*R.normal(size=(3,3))*2", "P0"),
]
BENIGN["C07"] = [
    (PS, "g = fft.ifftshift(fft.ifft2(fft.fftshift(G))) * (N * delta_f) ** 2", "g = fft.fftshift(fft.ifft2(fft.fftshift(G))) * (N * delta_f) ** 2"),
    (PS, "    f = numpy.sqrt(fx**2. + fy**2.)\n\n    fm = 5.92/l0/(2*numpy.pi)", "    f = numpy.hypot(fx, fy) if False else numpy.sqrt(fy**2. + fx**2.)\n\n    fm = 5.92/(2*numpy.pi*l0)"),
]

SEEDED["C08"] = [
    (SC, "0.17253 * (L0 / (r0)) ** (5. / 3.)", "0.1753 * (L0 / (r0)) ** (5. / 3.)", "V"),
    (SC, "(1 - 2 * numpy.pi ** (5. / 6.)", "(1 - (2 * numpy.pi) ** (5. / 6.)", "V2"),
    (SC, "scipy.special.kv(5. / 6., (2 * numpy.pi * seperation) / L0))", "scipy.special.kv(11. / 6., (2 * numpy.pi * seperation) / L0))", "V2"),
    (TURB, "B1 = (2 ** (-5. / 6)) * gamma(11. / 6) / (numpy.pi ** (8. / 3))", "B1 = (2 ** (-5. / 6)) * gamma(11. / 6) / (numpy.pi ** (5. / 3))", "V1"),
    (KL, "return 6.8839 * r**(5. / 3)", "return 6.8839 * r**(5. / 6)", "V4"),
    (SC, "return 6.88 * (separation / r0)**(5. / 3.)", "return 6.68 * (separation / r0)**(5. / 3.)", "V4"),
    (KL, "D_vk = (0.17253 * (L0 / (r0)) ** (5. / 3.)", "D_vk = (0.17253 * (L0 / (r0)) ** (5. / 6.)", "V"),
    (KL, "sf = stf_vonKarman(radius, outerscale)", "sf = stf_vonKarman_yao(radius, outerscale)", "V7"),
    (TURB, "A = (L0 / r0) ** (5. / 3)", "A = (L0 / r0) ** (5. / 6)", "V"),
    (PS, "0.023*r0**(-5./3.)", "0.033*r0**(-5./3.)", "V5"),
]
BENIGN["C08"] = [
    (SC, "return 6.88 * (separation / r0)**(5. / 3.)", "return 6.88 * separation**(5. / 3.) * r0**(-5. / 3.)"),
]

SEEDED["C09"] = [
    (FT, ")*delta**2", ")*delta", "R3"),
    (FT, "    N = data.shape[-1]\n    DATA = numpy.fft.fftshift(", "    N = data.shape[0]\n    DATA = numpy.fft.fftshift(", "R3"),
    (PS, '__all__ = ["ft_sh_phase_screen", "ft_phase_screen"]', "", "R6"),
    (FT, "                    numpy.fft.ifftshift(data, axes=(-1))),\n            axes=(-1)) * delta\n", "                    numpy.fft.fftshift(data, axes=(-1))),\n            axes=(-1)) * delta\n", "R"),
    (FT, "                    numpy.fft.ifftshift(data, axes=(-1,-2))\n                    ), axes=(-1,-2)\n            )*delta**2", "                    numpy.fft.ifftshift(data)\n                    ), axes=(-1,-2)\n            )*delta**2", "R2"),
    (FT, "axes=(-1)) * data.shape[-1] * delta_f\n\n    return DATA\n\n\ndef ft2", "axes=(-1)) * delta_f\n\n    return DATA\n\n\ndef ft2", "R3"),
]
BENIGN["C09"] = [
    (FT, "    N = data.shape[-1]\n    DATA = numpy.fft.fftshift(", "    N = data.shape[-2]\n    DATA = numpy.fft.fftshift("),
]

SEEDED["C10"] = [
    (OP, "Q1 * inputComplexAmp/mag", "Q1 * inputComplexAmp", "L3"),
    (OP, "A = 1/(1j*wvl*z)", "A = 1/(1j*wvl)", "L3"),
    (OP, "B = numpy.exp( 1j * k/(2*z) * (x2**2 + y2**2))", "B = numpy.exp( k/(2*z) * (x2**2 + y2**2))", "L2"),
    (OP, "Uout = A*B*C\n\n    return Uout\n\ndef twoStepFresnel", "Uout = A*B*C + Uin\n\n    return Uout\n\ndef twoStepFresnel", "L"),
    (OP, "fouriertransform.ft2( Uin, d1)", "fouriertransform.ft2( numpy.abs(Uin), d1)", "L1"),
    (OP, "df1 = 1. / (N*inputSpacing)", "df1 = 1. / (N*outputSpacing)", "L3"),
    (OP, "C = fouriertransform.ft2(Uitm * numpy.exp( 1j * k/(2*Dz2) * (x1a**2 + y1a**2)), d1a)", "C = fouriertransform.ft2(Uitm * numpy.exp( 1j * k/(2*Dz2) * (x1a**2 + y1a**2)), d1)", "L3"),
    (FT, ")*delta**2", ")*delta", "L3"),
    (OP, "Dz2 = z - Dz1", "Dz2 = z + Dz1", "L3"),
]
BENIGN["C10"] = [
    (OP, "d1a = wvl * abs(Dz1) / (N*d1)", "d1a = wvl * Dz1 / (N*d1)"),
    (OP, "    k = 2*numpy.pi/wvl  #optical wavevector\n\n    #Source plane coordinates", "    k = numpy.pi*2/wvl\n\n    #Source plane coordinates"),
]

SEEDED["C11"] = [
    (OP, "Q2 = numpy.exp(-1j * numpy.pi**2 * 2 * z/mag/k*fsq)", "Q2 = numpy.exp(-1j * numpy.pi**2 * 2 * z**2/mag/k*fsq)", "G"),
    (OP, "(1-mag)/z * r1sq", "(1+mag)/z * r1sq", "G"),
    (OP, "    if z==0:\n        return inputComplexAmp", "    if z==0:\n        return inputComplexAmp*0", "G4"),
    (OP, "B = numpy.exp( 1j * k/(2*z) * (x2**2 + y2**2))", "B = numpy.exp( -1j * k/(2*z) * (x2**2 + y2**2))", "G5"),
    (OP, "Dz1  = z / (1-m)", "Dz1  = z / (2-m)", "G5"),
    (OP, "x2,y2 = numpy.meshgrid(wvl * f * fX, wvl * f * fX)", "x2,y2 = numpy.meshgrid(wvl * f * fX, wvl * fX)", "G5"),
    (OP, "    if z==0:", "    if z<=0:", "G4"),
]
BENIGN["C11"] = [
    (OP, "d1a = wvl * abs(Dz1) / (N*d1)", "d1a = wvl * Dz1 / (N*d1)"),
]

SEEDED["C12"] = [
    (ZER, "Z = numpy.sqrt(2*(n+1)) * zernikeRadialFunc(n, m, R) * numpy.cos((m*theta)+rot)", "Z = numpy.sqrt(n+1) * zernikeRadialFunc(n, m, R) * numpy.cos((m*theta)+rot)", "Z2"),
    (ZER, "Z = numpy.sqrt(2*(n+1)) * zernikeRadialFunc(n, m, R) * numpy.cos((m*theta)+rot)", "Z = numpy.sqrt(2*(n+1)) * zernikeRadialFunc(n, m, R) * numpy.sin((m*theta)+rot)", "Z2"),
    (ZER, "        if j%2==0:", "        if j%2==1:", "Z3"),
    (ZER, "            Zs[i] = zernike_noll(J[i], N, rot)", "            Zs[i] = zernike_noll(J[i], N)", "Z5"),
    (ZER, "            Zs[j-1] = zernike_noll(j, N, rot)", "            Zs[j] = zernike_noll(j, N, rot)", "Z5"),
    (ZER, "        phase += Zs[z] * zCoeffs[z]", "        phase = Zs[z] * zCoeffs[z]", "Z6"),
    (ZER, "math.factorial(int(0.5 * (n + m) - i)) *", "math.factorial(int(0.5 * (n + m) + i)) *", "Z4"),
    (ZER, "    return Z*circle(N/2., N)", "    return Z", "Z2"),
    (ZER, "for i in range(0, int((n - m) / 2) + 1):", "for i in range(0, int((n - m) / 2)):", "Z4"),
    (ZER, "            Zs[z] /= (Zs[z].max()-Zs[z].min())", "            Zs[z] /= (Zs.max()-Zs[z].min())", "Z5"),
    (ZER, "    Zs = zernikeArray(len(zCoeffs), size, norm=norm, rot=rot)", "    Zs = zernikeArray(len(zCoeffs), size, rot=rot)", "Z6"),
    (ZER, "    p = (j-(n*(n+1))/2.)", "    p = (j-(n*(n-1))/2.)", "Z3"),
    (ZER, "math.factorial", "numpy.math.factorial", "Z1"),
]
SEEDED["C12"] += [
    (ZER, "                if ((j+1) % 2) == 1:\n                    gamx[i,j] = 0.0", "                if ((j+1) % 2) == 0:\n                    gamx[i,j] = 0.0", "Z8"),
    (ZER, "            if abs(m[j]-m[i]) != 1:\n                gamy[i,j] = 0.0", "            if abs(m[j]-m[i]) > 1:\n                gamy[i,j] = 0.0", "Z8"),
    (ZER, "                gamy[i,j] = numpy.sqrt(2.0)*numpy.sqrt(float(n[i]+1)*float(n[j]+1))", "                gamy[i,j] = 2.0*numpy.sqrt(float(n[i]+1)*float(n[j]+1))", "Z8"),
    (ZER, "            elif m[j]==(m[i]+1):\n                if ((i+1) % 2) == 1:", "            elif m[j]==(m[i]+1):\n                if ((i+1) % 2) == 0:", "Z8"),
    (ZER, "                    numpy.sum(Zs[z]**2)/numpy.sum(circle(N/2., N)))", "                    numpy.sum(Zs[z]**2)/numpy.sum(circle(N//2, N)))", "Z5"),
]
BENIGN["C12"] = [
    (ZER, "            # Rule d:\n            if m[i]==0:\n                pass    # line 1\n            elif m[j]==0:\n                pass    # line 1\n            elif m[j]==(m[i]+1):",
     "            # Rule d:\n            if m[i]==0 or m[j]==0:\n                pass\n            elif m[j]==(m[i]+1):"),
]

SEEDED["C14"] = [
    (PUP, "mask = x * x + y * y <= radius * radius", "mask = x * x + y * y < radius * radius", "M1"),
    (PUP, "coords = numpy.arange(0.5, size, 1.0)", "coords = numpy.arange(0, size, 1.0)", "M1"),
    (PUP, "mask = x * x + y * y <= radius * radius", "mask = x * x + y * y <= radius", "M1"),
    (PUP, '    if origin == "middle":', '    if origin != "corner_":', "M1"),
    (PUP, "    x -= circle_centre[0]", "    x -= circle_centre[1]", "M1"),
    (WFS, "if subap.mean() >= threshold:", "if subap.mean() > threshold:", "M2"),
    (WFS, "subaps_2d[:, :, x, y] = data[:, :, n_subap]", "subaps_2d[:, :, y, x] = data[:, :, n_subap]", "M4"),
    (WFS, "x2 = int(round(x + subapSpacing))", "x2 = int(round(x) + subapSpacing)", "M3"),
    (WFS, "                    fills.append(subap.mean())", "                    fills.append(subap.sum())", "M2"),
    (WFS, "                n_subap += 1", "                n_subap += 2", "M4"),
]
BENIGN["C14"] = [
    (PUP, "mask = x * x + y * y <= radius * radius", "mask = x**2 + y**2 <= radius**2"),
]

SEEDED["C15"] = [
    (CEN, "y_centroid = (y_cent*img).sum()/img.sum()", "y_centroid = (y_cent*img).sum()", "H"),
    (CEN, "return numpy.array([x_centroid, y_centroid])", "return numpy.array([y_centroid, x_centroid])", "H3"),
    (CEN, "pxlValue = numpy.sort(img.flatten())[-nPxls]", "pxlValue = numpy.sort(img.flatten())[nPxls]", "H4"),
    (CEN, "reference_image = numpy.conjugate(numpy.fft.fft2(y,", "reference_image = (numpy.fft.fft2(y,", "H5"),
    (CEN, "cy -= (ny * padding) // 2 - ny // 2", "cy -= float(ny) / 2. * (float(padding))", "H5"),
    (CEN, "xCent = xSum[...,1] - xSum[...,0]", "xCent = xSum[...,1] + xSum[...,0]", "H6"),
    (CEN, "thres = numpy.maximum(threshold*img.max(-1).max(-1)", "thres = numpy.maximum(threshold*img.max()", "H2"),
    (CEN, "cx -= (nx * padding) // 2 - nx // 2", "cx -= float(ny) / 2. * (float(padding) - 1)", "H5"),
    (CEN, "        img = (img.T - pxlValues).T", "        img = (img.T - pxlValues.max()).T", "H"),
]
BENIGN["C15"] = []

SEEDED["C16"] = [
    (INT, "binnedImgTmp += data[:,i::n]", "binnedImgTmp += data[:,i::n-1]", "B1"),
    (INT, "binnedImg += binnedImgTmp[...,i::n,:]", "binnedImg += binnedImgTmp[...,i::n]", "B1"),
    (INT, "                            + 1j*imagInterpObj(coordsY,coordsX))", "                            + imagInterpObj(coordsY,coordsX))", "B3"),
    (INT, "                array.imag, kx=order, ky=order)", "                array.imag, kx=order, ky=3)", "B3"),
    (PSF, "ring = functions.pupil.circle(i + 1, size) - functions.pupil.circle(i, size)", "ring = functions.pupil.circle(i + 1, size+1) - functions.pupil.circle(i, size)", "B4"),
    (PSF, "avg[i] = (ring * data).sum() / (ring.sum())", "avg[i] = (ring * data).sum() / (ring.sum() + 1)", "B4"),
    (PSF, "    ee /= numpy.sum(data)", "    pass", "B5"),
    (PSF, "    ee = numpy.append(0, ee)", "    ee = numpy.append(ee[0], ee)", "B5"),
    (PSF, "for i in range(int(size / 2)):", "for i in range(1, int(size / 2)):", "B4"),
    (PSF, "ee50d = float(xi[numpy.argmin(numpy.abs(yi - fraction))])", "ee50d = float(xi[numpy.argmax(numpy.abs(yi - fraction))])", "B5"),
    (INT, "RectBivariateSpline(   numpy.arange(array.shape[0]),\n                numpy.arange(array.shape[1]), array,\n                kx=order, ky=order)",
     "interp2d(   numpy.arange(array.shape[0]),\n                numpy.arange(array.shape[1]), array, copy=False,\n                kind=INTERP_KIND[order])", "B2"),
]
BENIGN["C16"] = []

SEEDED["C17"] = [
    (ATM, "0.423*(2*numpy.pi/lamda)**2*cn2)**(-3./5.)", "0.432*(2*numpy.pi/lamda)**2*cn2)**(-3./5.)", "I1"),
    (ATM, "r0_to_seeing(r0,lamda)", "r0_to_seeing(r0)", "I"),
    (AST, "-0.4 * magnitude", "-0.5 * magnitude", "I"),
    (ATM, "(cn2*(v**(5./3.))).sum(axis)", "(cn2*(v**(5./3.))).sum()", "I7"),
    (ATM, "r0=(0.423*(2*numpy.pi/lamda)**2*cn2)**(-3./5.)", "r0=(0.423*(2*numpy.pi/lamda)**2*cn2)**(-5./3.)", "I"),
    (AST, "flux_Jy = flux / (1.51E7 * FLUX_DICTIONARY[waveband][1])", "flux_Jy = flux / (1.51E7 * FLUX_DICTIONARY[waveband][2])", "I"),
    (AST, "photons = flux_photons * expTime * area", "photons = flux_photons * expTime**2 * area", "I"),
    (ATM, "tau0 = (Jv**(-3./5.))*0.0581*lamda**(6./5.)", "tau0 = (Jv**(-3./5.))*0.0851*lamda**(6./5.)", "I6"),
    (AST, "-2.5 * numpy.log10(flux_Jy / FLUX_DICTIONARY[waveband][2])", "-2 * numpy.log10(flux_Jy / FLUX_DICTIONARY[waveband][2])", "I"),
    (ATM, "slope_var = 0.162 * (wavelength ** 2) * r0 ** (-5. / 3) * subapDiam ** (-1. / 3)", "slope_var = 0.162 * (wavelength ** 2) * r0 ** (-5. / 3) * subapDiam ** (-1. / 6)", "I"),
]
BENIGN["C17"] = [
    (ATM, "return (0.98*lamda/r0)*180.*3600./numpy.pi", "return 0.98*lamda*(180.*3600./numpy.pi)/r0"),
]

SEEDED["C18"] = [
    (PC, "ix_tmp = ix==i+1", "ix_tmp = ix==i", "E1"),
    (PC, "h_el = numpy.zeros(L)", "h_el = numpy.zeros(L-1)", "E1"),
    (PC, "alt_bins = h.min() + hstep * numpy.arange(L)", "alt_bins = numpy.arange(h.min(), h.max(), hstep)", "E1.edge-count"),
    (PC, "alt_bins = h.min() + hstep * numpy.arange(L)", "alt_bins = h.min() + hstep * numpy.arange(1, L+1)", "E1"),
    (PC, "alt_bins = h.min() + hstep * numpy.arange(L)", "alt_bins = h.min() + hstep * numpy.arange(L+1)", "E1.edge-count"),
    (PC, "out.append(numpy.arange(splits[i]+1, splits[i+1]+1))", "out.append(numpy.arange(splits[i]+1, splits[i+1]))", "E2"),
    (PC, "cn2_el[i] = p[ix_tmp].sum()", "cn2_el[i] = p[ix_tmp].mean()", "E1m"),
    (PC, "h_el[i] = ((p[ix_tmp] * h[ix_tmp]**(5/3)).sum() / p[ix_tmp].sum())**(3/5)", "h_el[i] = ((p[ix_tmp] * h[ix_tmp]**(5/3)).sum() / p[ix_tmp].sum())**(5/3)", "E1m"),
    (PC, "    if len(splits) == 0:\n        return [numpy.arange(0, N)]", "    pass", "E2"),
]
SEEDED["C18"] += [
    (PC, "for i in range(2*L-1)])", "for i in range(2*L-2)])", "E4.moments"),
    (PC, "p * h**(i) for", "p * h**(i+1) for", "E4.moments"),
    (PC, "return mom.sum(1)", "return mom.sum(0)", "E4.moments"),
    (PC, "- mom0)**2).sum()", "- mom0)).sum()", "E4.objective"),
    (PC, "    h = args[:L]\n    cn2 = args[L:]\n    return ((", "    h = args[:L]\n    cn2 = args[L-1:]\n    return ((", "E4.objective"),
    (PC, "return res[:L]*h_scaling, res[L:] * cn2_scaling", "return res[:L]*cn2_scaling, res[L:] * h_scaling", "E4.unscale"),
    (PC, "x0 = numpy.hstack([guess_h/h_scaling, guess_cn2/cn2_scaling])", "x0 = numpy.hstack([guess_cn2/cn2_scaling, guess_h/h_scaling])", "E4.call"),
    (PC, "bounds = [(0,None) for i in range(2*L)]", "bounds = [(0,None) for i in range(L)]", "E4.call"),
    (PC, "bounds = [(0,None) for i in range(2*L)]", "bounds = [(None,None) for i in range(2*L)]", "E4.call"),
    (PC, "mom0 = _moments(h/h_scaling, p/cn2_scaling, L)", "mom0 = _moments(h, p/cn2_scaling, L)", "E4.call"),
    (PC, "res = minimize(_moments_minfunc, x0, args=(L, mom0), bounds = bounds)['x']\n    return res[:L]*h_scaling, res[L:] * cn2_scaling\n", "res = minimize(_moments_minfunc, x0, args=(L, mom0), jac=_moments_minfunc_jac, bounds = bounds)['x']\n    return res[:L]*h_scaling, res[L:] * cn2_scaling\n\ndef _moments_minfunc_jac(args, L, mom0):\n    h = args[:L]\n    cn2 = args[L:]\n    n = numpy.arange(2*L-1)[:,None]\n    resid = 2 * (_moments(h, cn2, L) - mom0)[:,None]\n    dh = (resid * n * cn2 * h**(n-1.)).sum(0)\n    dcn2 = (resid * h**n).sum(0)\n    return numpy.hstack([dh, dcn2])\n", "E4.total-on-box"),
]
BENIGN["C18"] = [
    (PC, "p * h**(i) for i in range(2*L-1)])", "h**k * p for k in range(2*L - 1)])"),
    (PC, "return mom.sum(1)", "return mom.sum(axis=1)"),
    (PC, "return res[:L]*h_scaling, res[L:] * cn2_scaling", "return h_scaling*res[0:L], cn2_scaling*res[L:]"),
    (PC, "res = minimize(_moments_minfunc, x0, args=(L, mom0), bounds = bounds)['x']\n    return res[:L]*h_scaling, res[L:] * cn2_scaling\n", "res = minimize(_moments_minfunc, x0, args=(L, mom0), jac=_moments_minfunc_jac, bounds = bounds)['x']\n    return res[:L]*h_scaling, res[L:] * cn2_scaling\n\ndef _moments_minfunc_jac(args, L, mom0):\n    h = args[:L]\n    cn2 = args[L:]\n    n = numpy.arange(2*L-1)[:,None]\n    resid = 2 * (_moments(h, cn2, L) - mom0)[:,None]\n    dh = (resid * n * cn2 * h**numpy.maximum(n-1., 0)).sum(0)\n    dcn2 = (resid * h**n).sum(0)\n    return numpy.hstack([dh, dcn2])\n"),
    (PC, "alt_bins = h.min() + hstep * numpy.arange(L)", "alt_bins = numpy.linspace(h.min(), h.max(), L, endpoint=False)"),
]

SEEDED["C19"] = [
    (SC, "sf_x = numpy.zeros(xm)", "sf_x = numpy.empty(xm)", "T2"),
    (SC, "for i in range(step, xm * step, step):", "for i in range(2*step, xm * step, step):", "T2"),
    (SC, "numpy.mean((phase[0:-i, :] - phase[i:, :])**2)", "numpy.mean((phase[0:-i, :] - phase[i:, :])**1)", "T"),
    (SC, "numpy.mean((phase[0:-i, :] - phase[i:, :])**2)", "numpy.mean((phase[:, 0:-i] - phase[:, i:])**2)", "T1"),
    (SC, "sf_x[int(i / step)] =", "sf_x[int(i / step) - 1] =", "T1"),
    (TPS, "axis=-2)[..., :(n_frames+1)//2, :])**2", "axis=-1)[..., :(n_frames+1)//2, :])**2", "T4"),
    (TPS, "numpy.fft.fftfreq(n_frames, 1./frame_rate)", "numpy.fft.fftfreq(n_frames, frame_rate)", "T5"),
    (TPS, "[:(n_frames+1)//2]", "[:int(n_frames/2)+1]", "T5"),
    (TPS, "tps_err = tps.std(-1)/numpy.sqrt(tps.shape[-1])", "tps_err = tps.std(-1)/numpy.sqrt(tps.shape[-2])", "T4"),
    (TPS, "    # Find mean across all sub-aps\n    mean_tps", "    # Find mean across all sub-aps\n    tps = (abs(tps)**2)\n    mean_tps", "T"),
]
BENIGN["C19"] = [
    (SC, "numpy.mean((phase[0:-i, :] - phase[i:, :])**2)", "numpy.mean((phase[i:, :] - phase[:-i, :])**2)"),
]

SEEDED["C20"] = [
    (CEN, "        im = im - im.min()\n", "        im -= im.min()\n", "P1"),
    (CEN, "    ref = ref - ref.min()\n", "    ref -= ref.min()\n", "P1"),
    (CEN, "            img = numpy.where(img_temp < 0, 0, img)\n", "            img[img_temp < 0] = 0\n", "P1"),
    (CEN, "        img = img - pxlValue\n", "        img -= pxlValue\n", "P1"),
    (CON, "    image = image / image.max()\n", "    image /= image.max()\n", "P1"),
    (TURB, "    r = r + 1e-40\n", "    r += 1e-40\n", "P1"),
    (FT, "    N = data.shape[-1]\n    DATA = numpy.fft.fftshift(", "    N = data.shape[-1]\n    data *= 1\n    DATA = numpy.fft.fftshift(", "P1"),
    (WFS, "    n_frames = data.shape[0]\n", "    n_frames = data.shape[0]\n    mask = numpy.asarray(mask)\n    mask[mask > 1] = 1\n", "P1"),
    (INT, "    shape = numpy.array( data.shape )\n", "    shape = numpy.array( data.shape )\n    data.sort()\n", "P1"),
    (OP, "    N = Uin.shape[0] #Assume square grid\n    k = 2*numpy.pi/wvl  #Optical Wavevector\n", "    N = Uin.shape[0] #Assume square grid\n    numpy.multiply(Uin, 1, out=Uin)\n    k = 2*numpy.pi/wvl  #Optical Wavevector\n", "P1"),
    (ATM, "def cn2_to_r0(cn2, lamda=500.E-9):", "_R0_CACHE = {}\ndef cn2_to_r0(cn2, lamda=500.E-9):\n    _R0_CACHE[lamda] = cn2", "P2"),
    (SC, "positions = self.subap_positions[wfs_n].copy()", "positions = self.gs_positions", "P1"),
    (ZER, "    Zs = zernikeArray(len(zCoeffs), size, norm=norm, rot=rot)\n", "    Zs = zernikeArray(len(zCoeffs), size, norm=norm, rot=rot)\n    zCoeffs = numpy.asarray(zCoeffs)\n    zCoeffs[numpy.isnan(zCoeffs)] = 0\n", "P1"),
]
SEEDED["C20"] += [
    (FT, "    N = data.shape[-1]\n    DATA = numpy.fft.fftshift(\n            numpy.fft.ifft2(", "    N = data.shape[0]\n    DATA = numpy.fft.fftshift(\n            numpy.fft.ifft2(", "P3"),
    (FT, "                    numpy.fft.ifftshift(data, axes=(-1,-2))\n                    ), axes=(-1,-2)", "                    numpy.fft.ifftshift(data)\n                    ), axes=(-1,-2)", "P3"),
    (FT, "            axes=(-1)) * data.shape[-1] * delta_f", "            axes=(-1)) * len(data) * delta_f", "P3"),
    (TPS, "tps.mean(-1)", "tps.mean(1)", "P3"),
    (TPS, "[..., :(n_frames+1)//2, :]", "[:(n_frames+1)//2]", "P3"),
    (TPS, "numpy.sqrt(tps.shape[-1])", "numpy.sqrt(tps.shape[1])", "P3"),
    (ATM, "def coherenceTime(cn2, v, lamda=500.E-9, axis=-1)", "def coherenceTime(cn2, v, lamda=500.E-9, axis=0)", "P3"),
    (ATM, "Jh = (cn2*(h**(5./3.))).sum(axis)", "Jh = (cn2*(h**(5./3.))).sum()", "P3"),
    (ATM, "(cn2*h**(5./6.)).sum(axis)", "numpy.sum(cn2*h**(5./6.), 0)", "P3"),
]
BENIGN["C20"] = [
    (FT, "    N = data.shape[-1]\n    DATA = numpy.fft.fftshift(\n            numpy.fft.ifft2(", "    N = data.shape[-2]\n    DATA = numpy.fft.fftshift(\n            numpy.fft.ifft2(" ),
    (TPS, "tps.mean(-1)", "numpy.mean(tps, axis=-1)"),
    (ATM, "(cn2*h**(5./6.)).sum(axis)", "numpy.sum(cn2*h**(5./6.), axis=axis)"),
    (CEN, "    ref = ref - ref.min()\n", "    ref = numpy.array(ref)\n    ref -= ref.min()\n"),
    (CON, "    image = image / image.max()\n", "    image = image.copy()\n    image /= image.max()\n"),
]

# memoisation: exact rule (a cache is a violation only if a cached object can change or escape, or the key is incomplete)
_OP_HDR = 'import numpy\nfrom . import fouriertransform\n'
_OP_BENIGN = 'import numpy\nfrom . import fouriertransform\nfrom functools import lru_cache\n\n\n@lru_cache(maxsize=None)\ndef _wavevector(wvl):\n    return 2*numpy.pi/wvl\n'
_OP_BAD = 'import numpy\nfrom . import fouriertransform\nfrom functools import lru_cache\n\n\n@lru_cache(maxsize=8)\ndef _lens_grid(N, d1, wvl, f):\n    fX = numpy.arange( -N/2.,N/2.)/(N*d1)\n    x2,y2 = numpy.meshgrid(wvl * f * fX, wvl * f * fX)\n    return x2**2 + y2**2\n'
for _P in ("C10", "C11", "C20"):
    BENIGN[_P] += [(OP, _OP_HDR + "|||    k = 2*numpy.pi/wvl  #Optical Wavevector\n", _OP_BENIGN + "|||    k = _wavevector(wvl)\n")]
    SEEDED[_P] += [(OP, _OP_HDR + "|||    Uout = numpy.exp( 1j*k/(2*f) * (x2**2 + y2**2) )/ (1j*wvl*f)",
                    _OP_BAD + "|||    r2sq = _lens_grid(N, d1, wvl, f)\n    r2sq *= k/(2*f)\n    Uout = numpy.exp( 1j * r2sq )/ (1j*wvl*f)", "pure" if _P != "C20" else "P2")]

# module-level dict caches: complete key + copies handed out = invisible (benign); key missing an input = hidden state
_ZN_OLD = "    n, m = zernIndex(j)\n    return zernike_nm(n, m, N, rot)\n"
_ZN_BAD = "    key = (int(j), int(N))\n    if key not in _noll_modes:\n        n, m = zernIndex(j)\n        _noll_modes[key] = zernike_nm(n, m, N, rot)\n    return _noll_modes[key].copy()\n"
_ZN_OK = "    key = (int(j), int(N), float(rot))\n    if key not in _noll_modes:\n        n, m = zernIndex(j)\n        _noll_modes[key] = zernike_nm(n, m, N, rot)\n    return _noll_modes[key].copy()\n"
_ZN_NOCOPY = _ZN_OK.replace(".copy()", "")
_ZDEF = "def zernike_noll(j, N, rot=0):"
SEEDED["C20"] += [(ZER, _ZDEF + "|||" + _ZN_OLD, "_noll_modes = {}\n\n\n" + _ZDEF + "|||" + _ZN_BAD, "P2"),
                  (ZER, _ZDEF + "|||" + _ZN_OLD, "_noll_modes = {}\n\n\n" + _ZDEF + "|||" + _ZN_NOCOPY, "P2")]
BENIGN["C20"] += [(ZER, _ZDEF + "|||" + _ZN_OLD, "_noll_modes = {}\n\n\n" + _ZDEF + "|||" + _ZN_OK)]

# C15: refactors that keep the behaviour
BENIGN["C15"] += [
    (CEN, "        cy -= float(ny) / 2. * (float(padding) - 1)\n        cx -= float(nx) / 2. * (float(padding) - 1)\n",
          "        cy = cy - 0.5 * ny * (padding - 1)\n        cx = cx - 0.5 * nx * (padding - 1)\n"),
    (CEN, "        y_centroid = (y_cent*img).sum()/img.sum()\n        x_centroid = (x_cent*img).sum()/img.sum()\n",
          "        total = img.sum()\n        y_centroid = numpy.sum(y_cent*img)/total\n        x_centroid = numpy.sum(img*x_cent)/total\n"),
    (CEN, "    cross_correlation = frame * reference_image\n", "    cross_correlation = reference_image\n    cross_correlation = cross_correlation * frame\n"),
    (CEN, "        corr = cross_correlate(im[frame], ref, padding=padding)\n", "        this_frame = im[frame]\n        corr = cross_correlate(this_frame, ref, padding)\n"),
]
BENIGN["C15"] += [
    (CEN, "    cross_correlation = frame * reference_image\n", "    cross_correlation = frame\n    cross_correlation *= reference_image\n    frame = cross_correlation\n"),
]
SEEDED["C15"] += [
    (CEN, "    centroids = numpy.zeros((2, nt))\n|||        corr = cross_correlate(im[frame], ref, padding=padding)\n",
          "    centroids = numpy.zeros((2, nt))\n    acc = numpy.zeros((ny, nx))\n|||        work = acc\n        work += im[frame]\n        corr = cross_correlate(work, ref, padding=padding)\n", "H2.frames-independent"),
]

# C19: spellings of an average
_SFM = "numpy.mean((phase[0:-i, :] - phase[i:, :])**2)"
BENIGN["C19"] += [
    (SC, _SFM, "numpy.sum((phase[0:-i, :] - phase[i:, :])**2) / ((phase.shape[0] - i) * phase.shape[1])"),
    (SC, _SFM, "((phase[0:-i, :] - phase[i:, :])**2).sum() / (phase[i:, :]).size"),
]
SEEDED["C19"] += [
    (SC, _SFM, "numpy.sum((phase[0:-i, :] - phase[i:, :])**2) / ((phase.shape[1] - i) * phase.shape[1])", "T1"),
    (SC, _SFM, "numpy.sum((phase[0:-i, :] - phase[i:, :])**2) / phase.size", "T1"),
]

# C09: shifts written as rolls (parity analysis of the roll amount)
_IFT_OLD = "    DATA = numpy.fft.fftshift(\n            numpy.fft.ifft(\n                    numpy.fft.ifftshift(data, axes=(-1))),\n            axes=(-1)) * data.shape[-1] * delta_f"
BENIGN["C09"] += [
    (FT, _IFT_OLD, "    N = data.shape[-1]\n    DATA = numpy.roll(numpy.fft.ifft(numpy.roll(data, -(N//2), axis=-1)), N//2, axis=-1) * N * delta_f"),
    (FT, _IFT_OLD, "    N = data.shape[-1]\n    DATA = numpy.roll(numpy.fft.ifft(numpy.roll(data, (N+1)//2, axis=-1)), int(N/2), axis=-1) * N * delta_f"),
]
SEEDED["C09"] += [
    (FT, _IFT_OLD, "    N = data.shape[-1]\n    DATA = numpy.roll(numpy.fft.ifft(numpy.roll(data, N//2, axis=-1)), N//2, axis=-1) * N * delta_f", "R4"),
    (FT, _IFT_OLD, "    N = data.shape[-1]\n    DATA = numpy.roll(numpy.fft.ifft(numpy.roll(data, -N//2, axis=-1)), N//2, axis=-1) * N * delta_f", "R4"),
    (FT, _IFT_OLD, "    N = data.shape[-1]\n    DATA = numpy.roll(numpy.fft.ifft(numpy.roll(data, -(N//2), axis=-1)), N//2) * N * delta_f", "R"),
]

# C04/C06: which generator draws the initial screen
_MIS = "self.r0, self.stencil_length, self.pixel_scale, self.L0, 1e-10, seed=self._R\n"
SEEDED["C04"] += [(IPS, _MIS, "self.r0, self.stencil_length, self.pixel_scale, self.L0, 1e-10, seed=self.random_seed\n", "K14")]
BENIGN["C04"] += [(IPS, "        self._scrn = phasescreen.ft_phase_screen(\n            " + _MIS, "        gen = self._R\n        self._scrn = phasescreen.ft_phase_screen(\n            self.r0, self.stencil_length, self.pixel_scale, self.L0, 1e-10, seed=gen\n")]

# C13: Karhunen-Loeve geometry / bookkeeping
SEEDED["C13"] = [
    (KL, "    ax = ax / (0.5 * nused)\n", "    ax = ax / (0.5 * nused - 0.5)\n", "A1"),
    (KL, "% ncp - 0.5 * (ncp - 1)", "% ncp - 0.5 * ncp", "A1"),
    (KL, "    ay = np.transpose(ax)\n", "    ay = ax\n", "A1"),
    (KL, "    ap = (cr2 >= ri**2) & (cr2 <= 1.)\n", "    ap = (cr2 >= ri) & (cr2 <= 1.)\n", "A2"),
    (KL, "    ap = (cr2 >= ri**2) & (cr2 <= 1.)\n", "    ap = (cr2 >= ri**2) | (cr2 <= 1.)\n", "A2"),
    (KL, "    cr = (cr2 - ri**2) / (1 - ri**2) * nr  # - 0.5\n", "    cr = (cr2 - ri**2) / (1 - ri**2) * nr - 0.5\n", "A3"),
    (KL, "    cp = (npp / dpi) * cp\n", "    cp = (npp / dpi) * cp + 0.5\n", "A3"),
    (KL, "    cr = np.clip(cr, 1e-3, nr - 1.001)", "    cr = np.clip(cr, 1e-3, nr - 0.001)", "A3"),
    (KL, "    r2 = ri**2 + (np.arange(nr)) / nr * (1 - ri**2)\n", "    r2 = ri**2 + (np.arange(nr) + 0.5) / nr * (1 - ri**2)\n", "A3"),
    (KL, "    phi1 = np.arange(npp) / npp * 2.0 * np.pi\n", "    phi1 = np.arange(npp) / (npp - 1) * 2.0 * np.pi\n", "A3"),
    (KL, "        cd = cd * cpgeom['ap']\n", "        cd = cd * (cpgeom['cr'] > 0)\n", "A4"),
    (KL, "                         order=1, mode='nearest')", "                         order=1, mode='constant')", "A4"),
    (KL, "        kl[i, :, :] = pol2car(pc1, gkl_sfi(polar_base, i), mask=mask)\n", "        kl[i, :, :] = pol2car(pc1, gkl_sfi(polar_base, i), mask=True)\n", "A5"),
    (KL, "    for i in range(nmax):\n        kl[i, :, :]", "    for i in range(nmax - 1):\n        kl[i, :, :]", "A5"),
    (KL, "    varKL = polar_base['evals']\n", "    varKL = polar_base['npo']\n", "A5"),
    (KL, "    pupil = np.array(pc1['ap'], dtype='float')\n", "    pupil = np.array(set_pctr(polar_base, ncp=dim)['ap'], dtype='float')\n", "A5"),
    (KL, "    gklbasis = {'nr': nr, 'np': npp, 'nfunc': nfunc, 'ri': ri,", "    gklbasis = {'nr': nr, 'np': npp, 'nfunc': nfunc, 'ri': 0.25,", "A5"),
    (KL, "    oord = kl_basis['ord'][i]\n", "    oord = kl_basis['ord'][i - 1]\n", "A6"),
    (KL, "    sf = rad_bas * az_bas\n", "    sf = rad_bas + az_bas\n", "A6"),
    (KL, "        gklazi[i, :] = np.cos((i // 2 + 1) * theta)\n", "        gklazi[i, :] = np.cos((i // 2) * theta)\n", "A7"),
    (KL, "    for i in range(2, nord, 2):\n        # odd\n", "    for i in range(3, nord, 2):\n        # odd\n", "A7"),
    (KL, "    theta = np.arange(npp) * (2 * np.pi / npp)\n", "    theta = np.arange(npp) * (2 * np.pi / (npp - 1))\n", "A7"),
    (KL, "        rnm = 1. / np.sqrt((j + 1) * (j + 2))\n", "        rnm = 1. / np.sqrt((j + 1) * (j + 1))\n", "A8"),
    (KL, "        s[j + 1, j] = (-1) * (j + 1) * rnm\n", "        s[j + 1, j] = (-1) * j * rnm\n", "A8"),
    (KL, "    d = (1 - ri**2) / nr\n    # r2", "    d = (1 - ri) / nr\n    # r2", "A9"),
    (KL, "    r2 = ri**2 + d * np.arange(nr) + d / 16\n", "    r2 = ri**2 + d * np.arange(nr) + d * 1.5\n", "A9"),
    (KL, "    a = (np.argsort(-1 * evs))[0:nfunc]\n", "    a = (np.argsort(evs))[0:nfunc]\n", "A10"),
    (KL, "    fktom = (1. - ri**2) / nr\n", "    fktom = (1. - ri) / nr\n", "A11"),
    (KL, "    fevtos = np.sqrt(2 * nr)\n", "    fevtos = np.sqrt(nr)\n", "A11"),
    (KL, "    kers[:, :, nxt] = np.sqrt(nr) * vs.T\n", "    kers[:, :, nxt] = vs.T\n", "A11"),
]
BENIGN["C13"] = [
    (KL, "    ap = (cr2 >= ri**2) & (cr2 <= 1.)\n", "    ap = (cr2 <= 1.) & (cr2 >= ri**2)\n"),
    (KL, "    ap = (cr2 >= ri**2) & (cr2 <= 1.)\n", "    ap = (cr2 > ri**2) & (cr2 < 1.)\n"),
    (KL, "    cr2 = (ax**2 + ay**2)\n", "    cr2 = ax * ax + ay * ay\n"),
    (KL, "    theta = np.arange(npp) * (2 * np.pi / npp)\n", "    theta = 2 * np.pi * np.arange(npp) / npp\n"),
    (KL, "        gklazi[i, :] = np.cos((i // 2 + 1) * theta)\n", "        gklazi[i, :] = np.cos(((i + 1) // 2) * theta)\n"),
    (KL, "    fevtos = np.sqrt(2 * nr)\n", "    fevtos = (2. * nr) ** 0.5\n"),
    (KL, "    pc1 = set_pctr(polar_base, ncp=dim, ncmar=0)\n", "    pc1 = pcgeom(polar_base['nr'], polar_base['np'], dim, polar_base['ri'], 0)\n"),
    (KL, "        rnm = 1. / np.sqrt((j + 1) * (j + 2))\n", "        rnm = ((j + 1.) * (j + 2.)) ** -0.5\n"),
    (KL, "    d = (1 - ri**2) / nr\n    # r2", "    d = (1 - ri * ri) / float(nr)\n    # r2"),
]

# seeded variants of a kept refactoring (the iterator / comprehension spelling of the pool assembly, benign/C03-b1)
SEEDED_ON = {
    "C03": [
        ("benign/C03-b1/patch.diff", SC, "wfs_pairs = [(wfs_i, wfs_j) for wfs_i in range(self.n_wfs) for wfs_j in range(wfs_i+1)]",
         "wfs_pairs = [(wfs_i, wfs_j) for wfs_i in range(self.n_wfs) for wfs_j in range(self.n_wfs)]", "O"),
        ("benign/C03-b1/patch.diff", SC, "wfs_pairs = [(wfs_i, wfs_j) for wfs_i in range(self.n_wfs) for wfs_j in range(wfs_i+1)]",
         "wfs_pairs = [(wfs_j, wfs_i) for wfs_i in range(self.n_wfs) for wfs_j in range(wfs_i+1)]", "O4"),
        ("benign/C03-b1/patch.diff", SC, "cov_xx, cov_yy, cov_xy = next(pair_results)",
         "cov_xx, cov_yy, cov_xy = next(pair_results)\n                    if wfs_i == wfs_j:\n                        next(pair_results)", "O"),
    ],
}

SEEDED["C13"] += [
    (KL, "                                   2 * rad[i] * rad[j] *\n", "                                   rad[i] * rad[j] *\n", "A13"),
    (KL, "            tmp = fnorm * (2 * np.pi / nth) * np.fft.fft(sf, axis=0)\n", "            tmp = fnorm * (2 * np.pi / nth) * np.fft.ifft(sf, axis=0)\n", "A13"),
    (KL, "    fnorm = 1. / 2. * (-1) / (2 * np.pi * (1 - ri**2))\n", "    fnorm = 1. / 2. * (-1) / (2 * np.pi * (1 - ri))\n", "A13"),
    (KL, "            kernel[j, i, :] = tmp\n", "            kernel[i, j, :] = tmp\n", "A13"),
    (KL, "    nth = oversampling * nr\n", "    nth = oversampling * nr + 1\n", "A13"),
    (KL, "        for j in range(i + 1):\n            radius", "        for j in range(i):\n            radius", "A13"),
]
BENIGN["C13"] += [
    (KL, "            tmp = fnorm * (2 * np.pi / nth) * np.fft.fft(sf, axis=0)\n", "            spectrum = np.fft.fft(sf)\n            tmp = spectrum * (fnorm * 2 * np.pi / nth)\n"),
    (KL, "    for i in range(nr):\n        for j in range(i + 1):\n            radius = 0.5 * np.sqrt(rad[i]**2 + rad[j]**2 -\n                                   2 * rad[i] * rad[j] *\n                                   np.cos(np.arange(nth) * 2 * np.pi / nth))\n",
          "    cos_theta = np.cos(np.arange(nth) * 2 * np.pi / nth)\n    for i in range(nr):\n        for j in range(i + 1):\n            rad_i, rad_j = rad[i], rad[j]\n            radius = 0.5 * np.sqrt(rad_i**2 + rad_j**2 - 2 * rad_i * rad_j * cos_theta)\n"),
]

# ---- round-4 rules (structure law, scale-after-transform, memory-order traversal, helper recursion)
SEEDED["C01"] += [
    (SC, "    return numpy.where(numpy.equal(seperation, 0), 0., D_vk)[()]\n", "    return numpy.where(seperation > L0, D_vk.max(), D_vk)\n", "stencil.structure-law"),
    (SC, "    return numpy.where(numpy.equal(seperation, 0), 0., D_vk)[()]\n", "    return numpy.sort(D_vk.ravel()).reshape(numpy.shape(D_vk))\n", "stencil"),
]
SEEDED["C09"] += [
    (FT, "                    numpy.fft.ifftshift(data, axes=(-1,-2))\n                    ), axes=(-1,-2)\n            )*delta**2\n",
     "                    numpy.fft.ifftshift(data*delta**2, axes=(-1,-2))\n                    ), axes=(-1,-2)\n            )\n", "R3"),
]
BENIGN["C09"] += [
    (FT, "                    numpy.fft.ifftshift(data, axes=(-1,-2))\n                    ), axes=(-1,-2)\n            )*delta**2\n",
     "                    numpy.fft.ifftshift(data, axes=(-1,-2))\n                    ), axes=(-1,-2)\n            )*(delta*delta)\n"),
]

_C16R = "selftest/refactorings/c16_recursive_spline_helper.diff"     # zoom/zoom_rbs share a recursive helper (complex -> real + 1j*imag)
SEEDED_ON["C16"] = [
    (_C16R, INT, "+ 1j*_spline_zoom(array.imag, coordsX, coordsY, order))", "+ 1j*_spline_zoom(array.imag, coordsX, coordsY))", "B3.complex-split"),
    (_C16R, INT, "+ 1j*_spline_zoom(array.imag, coordsX, coordsY, order))", "+ _spline_zoom(array.imag, coordsX, coordsY, order))", "B3.complex-split"),
    (_C16R, INT, "return (_spline_zoom(array.real, coordsX, coordsY, order)", "return (_spline_zoom(array.real, coordsY, coordsX, order)", "B3"),
    (_C16R, INT, "    if numpy.iscomplexobj(array):\n        return (_spline_zoom", "    if numpy.issubdtype(array.dtype, complex):\n        return (_spline_zoom", "B3.complex-detection"),
]
SEEDED["C14"] += [
    (WFS, "    n_subap = 0\n    for x in range(nx_subaps):\n        for y in range(nx_subaps):\n            if mask[x, y] == 1:\n                subaps_2d[:, :, x, y] = data[:, :, n_subap]\n                n_subap += 1\n",
     "    cells = numpy.flatnonzero(mask.ravel(order=\"K\") == 1)\n    subaps_2d.reshape(n_frames, 2, -1)[:, :, cells] = data\n", "M4"),
]

# ---- round 5: defects seeded on top of the kept (independently produced) refactorings, so that every newly accepted form
# ---- is also shown to be rejected when it is wrong
SEEDED_ON.setdefault("C14", []).extend([
    ("benign/C14-b7/patch.diff", WFS, "x_valid, y_valid = numpy.nonzero(", "y_valid, x_valid = numpy.nonzero(", "M4"),
    ("benign/C14-b7/patch.diff", WFS, "mask[:, :nx_subaps] == 1)", "mask[:, :nx_subaps] != 0)", "M4"),
    ("benign/C14-b7/patch.diff", WFS, "= data[:, :, :n_valid]", "= data[:, :, ::-1][:, :, :n_valid]", "M4"),
    ("benign/C14-b7/patch.diff", WFS, "numpy.nonzero(mask[:, :nx_subaps] == 1)", "numpy.nonzero(mask[:, :nx_subaps].T == 1)", "M4"),
])
SEEDED_ON.setdefault("C01", []).extend([
    ("benign/C02-b7/patch.diff", SC, "[cov_xy, cov_yy]])", "[cov_xy, cov_xx]])", "kind"),
    ("benign/C03-b7/patch.diff", SC, "cov_mat_coord_x2 = subap_ni * 2 + 2 * self.n_subaps[wfs_i]", "cov_mat_coord_x2 = subap_ni * 2 + 2 * self.n_subaps[wfs_j]", "tile"),
    ("benign/C01-b6/patch.diff", SC, "(rows_x, cols_x, cov_xx), (rows_y, cols_x, cov_xy),", "(rows_x, cols_x, cov_xx), (rows_y, cols_x, cov_yy),", "kind"),
    ("benign/C01-b6/patch.diff", SC, "numpy.concatenate(([0], numpy.cumsum(self.n_subaps)))", "numpy.concatenate(([0], numpy.cumsum(self.n_subaps[::-1])))", "tile"),
])
SEEDED_ON.setdefault("C03", []).extend([
    ("benign/C02-b7/patch.diff", SC, "[cov_xy, cov_yy]])", "[cov_xy.T, cov_yy]])", "O5"),
])
SEEDED_ON.setdefault("C05", []).extend([
    ("benign/C05-b6/patch.diff", IPS, "kept_rows = self._scrn[:self.stencil_length - 1]", "kept_rows = self._scrn[:self.stencil_length]", "S1"),
    ("benign/C05-b6/patch.diff", IPS, "numpy.concatenate((new_row, kept_rows), axis=0)", "numpy.concatenate((kept_rows, new_row), axis=0)", "S1"),
    ("benign/C05-b5/patch.diff", IPS, "return new_row[numpy.newaxis, :]", "return new_row[:, numpy.newaxis]", "S1"),
])
SEEDED_ON.setdefault("C04", []).extend([
    ("benign/C04-b5/patch.diff", IPS, "rows, cols = self.stencil_coords.T", "cols, rows = self.stencil_coords.T", "K"),
    ("benign/C04-b7/patch.diff", IPS, "numpy.eye(len(", "2 * numpy.eye(len(", "K"),
])
SEEDED_ON.setdefault("C19", []).extend([
    ("benign/C19-b5/patch.diff", SC, "sf_x[1:] = [_mean_squared_difference(phase, lag)", "sf_x[1:] = [_mean_squared_difference(phase, lag + 1)", "T1"),
    ("benign/C19-b5/patch.diff", SC, "for lag in range(step, xm * step, step)]", "for lag in range(2 * step, (xm + 1) * step, step)]", "T"),
    ("benign/C19-b7/patch.diff", TPS, "[:int(n_frames/2)]", "[1:int(n_frames/2) + 1]", "T5"),
])
SEEDED_ON.setdefault("C18", []).extend([
    ("benign/C18-b5/patch.diff", PC, "slabs = [ix==i+1 for i in range(L)]", "slabs = [ix==i for i in range(L)]", "E1"),
    ("benign/C18-b5/patch.diff", PC, "cn2_el = numpy.array([p[slab].sum() for slab in slabs], dtype=float)", "cn2_el = numpy.array([p[slab].sum() for slab in slabs], dtype=int)", "E1"),
    ("benign/C18-b7/patch.diff", PC, "h_L, cn2_L = numpy.split(res.x, [L])", "cn2_L, h_L = numpy.split(res.x, [L])", "E4"),
])
SEEDED_ON.setdefault("C16", []).extend([
    ("benign/C16-b7/patch.diff", PSF, "for i, outer in enumerate(discs):", "for i, outer in enumerate(discs, start=1):", "B4"),
    ("benign/C16-b7/patch.diff", PSF, "    inner = next(discs)\n", "    inner = next(discs)\n    inner = next(discs)\n", "B4"),
    ("benign/C16-b7/patch.diff", PSF, "        ring = outer - inner\n", "        ring = inner - outer\n", "B4"),
])
SEEDED_ON.setdefault("C12", []).extend([
    ("benign/C12-b5/patch.diff", ZER, "for j, Z in enumerate(Zs, start=1):", "for j, Z in enumerate(Zs):", "Z5"),
    ("benign/C12-b5/patch.diff", ZER, "Z /= numpy.ptp(Z)", "Z /= numpy.ptp(Z) + 1", "Z5"),
    ("benign/C12-b7/patch.diff", ZER, "if m!=0 and j%2!=0:", "if m!=0 and j%2==0:", "Z3"),
    ("benign/C12-b7/patch.diff", ZER, "for Z, coeff in zip(Zs, zCoeffs):", "for Z, coeff in zip(Zs, zCoeffs[::-1]):", "Z6"),
])
SEEDED_ON.setdefault("C07", []).extend([
    ("benign/C07-b7/patch.diff", PS, "re, im = R.normal(size=(2, N, N))", "re, im = R.normal(size=(2, N, N))\n    im = re", "P"),
])
SEEDED_ON.setdefault("C13", []).extend([
    ("benign/C08-b7/patch.diff", KL, "zip(*np.tril_indices(nr))", "zip(*np.tril_indices(nr - 1))", "A13"),
    ("benign/C13-b7/patch.diff", KL, "ay, ax = np.meshgrid(c1d, c1d, indexing='ij')", "ax, ay = np.meshgrid(c1d, c1d, indexing='ij')", "A1"),
])
SEEDED_ON.setdefault("C15", []).extend([
    ("benign/C15-b5/patch.diff", CEN, "frame_sum = lambda values: values.sum(-1).sum(-1)", "frame_sum = lambda values: values.sum()", "H"),
])

_C18E = "selftest/refactorings/c18_edges_form.diff"        # split -> group conversion written with an edge array
SEEDED_ON.setdefault("C18", []).extend([
    (_C18E, PC, "    if splits.size == 0:", "    if not splits.any():", "E2.no-splits"),
    (_C18E, PC, "numpy.concatenate(([0], splits+1, [N]))", "numpy.concatenate(([0], splits, [N]))", "E2.tiling"),
    (_C18E, PC, "zip(edges[:-1], edges[1:])", "zip(edges[:-1], edges[2:])", "E2.tiling"),
])

_C11F = "selftest/refactorings/c11_unit_fast_path.diff"    # angularSpectrum skips the chirps when the two spacings are equal
SEEDED_ON.setdefault("C11", []).extend([
    (_C11F, OP, "    if outputSpacing == inputSpacing:", "    if numpy.isclose(outputSpacing, inputSpacing):", "G5"),
    (_C11F, OP, "    if outputSpacing == inputSpacing:", "    if outputSpacing >= inputSpacing:", "G5"),
    (_C11F, OP, "        Q1 = Q3 = 1.\n", "        Q1 = 1.\n        Q3 = -1.\n", "G"),
])

# ---- orientation of the two-step Fresnel propagator (G7, after the fix d2a7e47)
SEEDED["C11"] += [
    (OP, "    C = _fresnelTransform(Uitm * numpy.exp( 1j * k/(2*Dz2) * (x1a**2 + y1a**2)), d1a, Dz2)", "    C = fouriertransform.ft2(Uitm * numpy.exp( 1j * k/(2*Dz2) * (x1a**2 + y1a**2)), d1a)", "G7"),
    (OP, "    C = _fresnelTransform(Uin * numpy.exp(1j * k/(2*Dz1) * (x1**2 + y1**2)), d1, Dz1)", "    C = _fresnelTransform(Uin * numpy.exp(1j * k/(2*Dz1) * (x1**2 + y1**2)), d1, -Dz1)", "G"),
    (OP, "        return numpy.conj(fouriertransform.ft2(numpy.conj(U), d))", "        return fouriertransform.ft2(numpy.conj(U), d)", "G"),
]
BENIGN["C11"] += [
    (OP, "    if Dz < 0:\n        return numpy.conj(fouriertransform.ft2(numpy.conj(U), d))\n    return fouriertransform.ft2(U, d)",
     "    if Dz >= 0:\n        return fouriertransform.ft2(U, d)\n    return numpy.conjugate(fouriertransform.ft2(numpy.conjugate(U), d))"),
]
# mirroring the other step instead gives the same two-step output (exactly one of the two steps is mirrored either way), but
# since oneStepFresnel uses the same helper (397e02f) it turns that one round for positive distances
SEEDED["C11"] += [
    (OP, "    if Dz < 0:\n        return numpy.conj(fouriertransform.ft2(numpy.conj(U), d))", "    if Dz > 0:\n        return numpy.conj(fouriertransform.ft2(numpy.conj(U), d))", "G7"),
]
SEEDED["C10"] += [
    (OP, "        return numpy.conj(fouriertransform.ft2(numpy.conj(U), d))", "        return numpy.conj(fouriertransform.ft2(U, d))", "L1"),
]

# ---- value of the von Karman structure functions at exactly zero separation (V2.evaluable-at-origin, after the fix cd3feeb)
SEEDED["C08"] += [
    (SC, "    return numpy.where(numpy.equal(seperation, 0), 0., D_vk)[()]", "    return D_vk", "V2.evaluable"),
    (KL, "    return np.where(np.equal(r, 0), 0., D_vk)[()]", "    return D_vk", "V2.evaluable"),
    (SC, "    return numpy.where(numpy.equal(seperation, 0), 0., D_vk)[()]", "    return numpy.where(numpy.equal(seperation, 0), 0.17253 * (L0 / r0) ** (5. / 3.), D_vk)[()]", "V2"),
    (SC, "    return numpy.where(numpy.equal(seperation, 0), 0., D_vk)[()]", "    return numpy.where(seperation < 1e-3 * L0, 0., D_vk)[()]", "V"),
]
BENIGN["C08"] += [
    (SC, "    return numpy.where(numpy.equal(seperation, 0), 0., D_vk)[()]", "    return numpy.where(seperation > 0, D_vk, 0.)[()]"),
    (KL, "    return np.where(np.equal(r, 0), 0., D_vk)[()]", "    return np.where(r == 0, 0., D_vk)[()]"),
]

# ---- rebin in integer arithmetic (A14, after the fix def40d2)
SEEDED["C13"] += [
    (KL, "    indices = [(np.arange(new) * old) // new\n               for old, new in zip(a.shape, newshape)]\n    return a[np.ix_(*indices)]",
     "    slices = [slice(0, old, float(old) / new)\n              for old, new in zip(a.shape, newshape)]\n    return a[tuple(np.mgrid[slices].astype('i'))]", "A14"),
    (KL, "    indices = [(np.arange(new) * old) // new", "    indices = [(np.arange(new) * new) // old", "A14"),
    (KL, "    indices = [(np.arange(new) * old) // new", "    indices = [(np.arange(old) * old) // new", "A14"),
]
BENIGN["C13"] += [
    (KL, "    indices = [(np.arange(new) * old) // new", "    indices = [np.arange(new) * old // new"),
]

# ---- the fixes of the audit round (2978dfe .. 06ed172): each reverted as a variant, so that the rule that decided it stays armed
TURBF = "aotools/turbulence/turb.py"
SEEDED["C08"] += [(TURBF, "    r = numpy.float64(r)\n", "    r = numpy.float32(r)\n", "V0.precision")]
SEEDED["C04"] += [(TURBF, "    r = numpy.float64(r)\n", "    r = numpy.float32(r)\n", "K10.precision"),
                  (TURBF, "    r = numpy.float64(r)\n", "    r = numpy.asarray(r).astype('float32')\n", "K10.precision")]
SEEDED["C05"] += [(TURBF, "    r = numpy.float64(r)\n", "    r = numpy.float32(r)\n", "S6")]
BENIGN["C08"] += [(TURBF, "    r = numpy.float64(r)\n", "    r = numpy.asarray(r, dtype=float)\n")]
SEEDED["C11"] += [
    (OP, "    r1sq = (x1**2 + y1**2)\n", "    r1sq = (x1**2 + y1**2) + 1e-10\n", "G9"),
    (OP, "    if m == 1:\n        Dz1 = z / (1+m)\n    else:\n        Dz1  = z / (1-m) #propagation distance\n",
     "    try:\n        Dz1  = z / (1-m) #propagation distance\n    except ZeroDivisionError:\n        Dz1 = z / (1+m)\n", "G10"),
    (OP, "    C = _fresnelTransform(Uin *numpy.exp(1j * k/(2*z) * (x1**2+y1**2)), d1, z)", "    C = fouriertransform.ft2(Uin *numpy.exp(1j * k/(2*z) * (x1**2+y1**2)), d1)", "G7"),
]
BENIGN["C11"] += [
    (OP, "    if m == 1:\n        Dz1 = z / (1+m)\n    else:\n        Dz1  = z / (1-m) #propagation distance\n",
     "    Dz1 = z / (1+m) if m == 1 else z / (1-m) #propagation distance\n"),
]
SEEDED["C01"] += [
    (SC, "    return numpy.tril(cov_mat) + numpy.tril(cov_mat, -1).T\n",
     '    return numpy.bitwise_or(cov_mat.view("int32"), cov_mat.T.view("int32")).view("float32")\n', "lower.mirror"),
    (SC, "    return numpy.tril(cov_mat) + numpy.tril(cov_mat, -1).T\n", "    return numpy.tril(cov_mat) + numpy.tril(cov_mat).T\n", "lower.mirror"),
]
BENIGN["C01"] += [
    (SC, "    return numpy.tril(cov_mat) + numpy.tril(cov_mat, -1).T\n", "    return numpy.tril(cov_mat, -1).T + numpy.tril(cov_mat)\n"),
]
SEEDED["C07"] += [
    (PS, "    phs_hi = ft_phase_screen(r0, N, delta, L0, l0, FFT, seed=R)\n", "    phs_hi = ft_phase_screen(r0, N, delta, L0, l0, FFT, seed=seed)\n", "P4.independent"),
]
SEEDED["C20"] += [
    (PC, "def _convert_splits_to_groups", "def _shuffled(x):\n    numpy.random.shuffle(x)\n    return x\n\n\ndef _convert_splits_to_groups", "P"),
]

# ---- the second batch of audit fixes (6cad877 .. 809a3ef), each reverted
TPS = "aotools/turbulence/temporal_ps.py"
SEEDED["C19"] += [
    (SC, "        nbOfPoint = phase.shape[0] / 4\n", "        nbOfPoint = phase.shape[1] / 4\n", "T2.lag-range"),
    (SC, "    xm = int(numpy.min([nbOfPoint, phase.shape[0] / step - 1]))", "    xm = int(numpy.min([nbOfPoint, phase.shape[1] / step - 1]))", "T2.lag-range"),
    (TPS, "[..., :(n_frames+1)//2, :]", "[..., :int(n_frames/2), :]", "T4"),
    (TPS, "[:(n_frames+1)//2]\n", "[:int(n_frames/2)]\n", "T5"),
    (TPS, "[..., :(n_frames+1)//2, :]", "[..., :n_frames//2 + 1, :]", "T"),
]
SEEDED["C16"] += [
    (INT, "        return interpObj(coordsX,coordsY)\n        \n", "        return interpObj(coordsY,coordsX)\n        \n", "B3.zoom-grid"),
    (INT, "    except (IndexError, TypeError):\n        xSize = ySize = newSize\n\n    coordsX = numpy.linspace(0, array.shape[0]-1, xSize)\n    coordsY = numpy.linspace(0, array.shape[1]-1, ySize)\n\n    #If array is complex must do 2 interpolations\n    if array.dtype==numpy.complex64 or array.dtype==numpy.complex128:\n        realInterpObj = RectBivariateSpline(   \n",
     "    except IndexError:\n        xSize = ySize = newSize\n\n    coordsX = numpy.linspace(0, array.shape[0]-1, xSize)\n    coordsY = numpy.linspace(0, array.shape[1]-1, ySize)\n\n    #If array is complex must do 2 interpolations\n    if array.dtype==numpy.complex64 or array.dtype==numpy.complex128:\n        realInterpObj = RectBivariateSpline(   \n", "B3.integer-size"),
]
SEEDED["C15"] += [
    (CEN, "        cy -= (ny * padding) // 2 - ny // 2\n", "        cy -= float(ny) / 2. * (float(padding) - 1)\n", "H5.padding-offset"),
    (CEN, "        cx -= (nx * padding) // 2 - nx // 2\n", "        cx -= (nx * padding) // 2\n", "H5.padding-offset"),
]
BENIGN["C15"] += [
    (CEN, "        cy -= (ny * padding) // 2 - ny // 2\n", "        y_offset = (ny * padding) // 2 - ny // 2\n        cy -= y_offset\n"),
]

SEEDED["C01"] += [
    (SC, ".T * float(self.subap_diameters[wfs_n])\n", ".T * self.subap_diameters[wfs_n]\n", "project.float-positions"),
]
BENIGN["C01"] += [
    (SC, ".T * float(self.subap_diameters[wfs_n])\n", ".T.astype(float) * self.subap_diameters[wfs_n]\n"),
]
SEEDED["C17"] += [
    (ATM, "    Jh = (cn2*(h**(5./3.))).sum(axis)\n", "    Jh = (cn2*(h**(5./3.))).sum(axis-1)\n", "I7"),
]

# ---- the squared chord of gkl_kernel clamped at zero (A15, after the fix b976351): reverted, and with other guards
SEEDED["C13"] += [
    (KL, "np.sqrt(np.maximum(rad[i]**2 + rad[j]**2 -\n                                   2 * rad[i] * rad[j] *\n                                   np.cos(np.arange(nth) * 2 * np.pi / nth), 0))",
     "np.sqrt(rad[i]**2 + rad[j]**2 -\n                                   2 * rad[i] * rad[j] *\n                                   np.cos(np.arange(nth) * 2 * np.pi / nth))", "A15"),
    (KL, "np.cos(np.arange(nth) * 2 * np.pi / nth), 0))", "np.cos(np.arange(nth) * 2 * np.pi / nth), -1))", "A1"),
]
BENIGN["C13"] += [
    (KL, "np.sqrt(np.maximum(rad[i]**2 + rad[j]**2 -", "np.sqrt(np.fmax(rad[i]**2 + rad[j]**2 -"),
    (KL, "np.cos(np.arange(nth) * 2 * np.pi / nth), 0))", "np.cos(np.arange(nth) * 2 * np.pi / nth), 0.))"),
]

# ---- encircled_energy: resampling grid vs abscissae (B5.grid-covers-curve; the unchanged tree is a known finding at ratio 1 : 2)
PSFF = "aotools/image_processing/psf.py"
SEEDED["C16"] += [
    (PSFF, "    xi = numpy.linspace(0, dim, int(4 * dim))\n", "    xi = numpy.linspace(0, dim / 2, int(4 * dim))\n", "B5.grid-covers-curve"),
]
BENIGN["C16"] += [
    (PSFF, "    xi = numpy.linspace(0, dim, int(4 * dim))\n", "    xi = numpy.linspace(0, 2 * dim, int(8 * dim))\n"),
]

# ---- round 9: the three silent misses, as variants of the rules strengthened for them
SEEDED["C08"] += [
    (TURBF, "    r = numpy.float64(r)\n", "    r = numpy.asarray(r)\n", "V0.precision"),
    (TURBF, "    r = numpy.float64(r)\n", "    r = numpy.asarray(r) * 1.0\n", "V0.precision"),
]
BENIGN["C08"] += [
    (TURBF, "    r = numpy.float64(r)\n", "    r = numpy.asarray(r).astype(numpy.float64)\n"),
    (TURBF, "    r = numpy.float64(r)\n", "    r = numpy.array(r, dtype='float64')\n"),
]
SEEDED["C17"] += [
    (ATM, "    Jh = (cn2*(h**(5./3.))).sum(axis)\n", "    Jh = (cn2*numpy.cbrt(numpy.asarray(h)**5)).sum(axis)\n", "I10"),
    (ATM, "    slopeVar = slopes.var(axis=(-1))\n\n    r0 = ((0.162 * (wavelength ** 2) * subapDiam ** (-1. / 3)) / slopeVar) ** (3. / 5)\n\n    r0 = r0.mean()\n",
     "    slopeVar = slopes.var(axis=(-1)).mean()\n\n    r0 = ((0.162 * (wavelength ** 2) * subapDiam ** (-1. / 3)) / slopeVar) ** (3. / 5)\n", "I1.slope-variance-shape"),
]
BENIGN["C17"] += [
    (ATM, "    Jh = (cn2*(h**(5./3.))).sum(axis)\n", "    Jh = (cn2*numpy.cbrt(numpy.asarray(h, dtype=float)**5)).sum(axis)\n"),
]
BENIGN["C08"] += [
    (TURBF, "    r = numpy.float64(r)\n", "    sep_ = numpy.float64(r)\n    r = sep_\n"),
]
BENIGN["C08"] += [
    (TURBF, "    r = numpy.float64(r)\n", "    r_ = r\n    r = numpy.float64(r_)\n"),
]

# ---- an anchored function moved to a private module and imported back under its name: the anchor follows the binding
_C14M = "selftest/refactorings/c14_circle_moved.diff"
SEEDED_ON.setdefault("C14", []).extend([
    (_C14M, "aotools/functions/_circle_impl.py", "    mask = x * x + y * y <= radius * radius", "    mask = x * x + y * y < radius * radius", "M1"),
    (_C14M, "aotools/functions/_circle_impl.py", "        coords -= size / 2.", "        coords -= size // 2", "M1"),
])
