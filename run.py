#!/venv/bin/python
"""Entry point: run.py <Cxx> [--tier quick|thorough] [--explain <replay.json>]

Static analysis only: parses /repo's current sources with `ast`; never imports
or executes aotools.
"""
import importlib
import json
import os
import sys

HERE = os.path.dirname(os.path.abspath(__file__))
sys.path.insert(0, HERE)

from sa import report  # noqa: E402


def main(argv):
    if len(argv) < 2:
        print("usage: run.py <Cxx> [--tier quick|thorough] [--explain path]")
        return 2
    prop = argv[1].upper()
    tier = os.environ.get("VERIF_TIER", "quick")
    if "--tier" in argv:
        tier = argv[argv.index("--tier") + 1]
    if "--explain" in argv:
        path = argv[argv.index("--explain") + 1]
        with open(path) as fh:
            data = json.load(fh)
        for v in data.get("violations", []):
            print("%s %s\n  at   %s\n  key  %s\n  why  %s" % (v["property"], v["rule"], v["where"], v["key"], v["message"]))
            for k, x in (v.get("detail") or {}).items():
                print("  %-8s %s" % (k, x))
        return 1 if data.get("violations") else 0
    if tier not in ("quick", "thorough"):
        tier = "quick"
    try:
        mod = importlib.import_module("sa.props.%s" % prop.lower())
    except ImportError as e:
        print("ANALYSIS-ERROR property=%s no driver (%s)" % (prop, e))
        return 2
    status = report.run_driver(prop, lambda rep: mod.run(rep, tier), mod.LEVEL, tier)
    if tier == "thorough" and status == 0 and not os.environ.get("AOTOOLS_REPO"):
        from sa import selftest
        status = selftest.run(prop)
    return status


if __name__ == "__main__":
    sys.exit(main(sys.argv))
